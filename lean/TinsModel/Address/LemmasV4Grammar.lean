import TinsModel.Address.LemmasHwGrammar
/- The `inet_pton(AF_INET)` reference model accepts exactly the strict dotted quads of Spec.parse4, with the same bytes. -/
namespace Tins.Addr
open Spec

/-! ### continuing an octet: the acceptance logic of the loop as a predicate -/

def contVal (cur : Nat) (g : List Nat) : Nat := g.foldl (fun acc c => acc * 10 + (c - 48)) cur

def contOK : Bool → Nat → List Nat → Bool
  | _, _, [] => true
  | saw, cur, c :: g =>
    isDigit c && !(saw && cur == 0) && decide (cur * 10 + (c - 48) ≤ 255) && contOK true (cur * 10 + (c - 48)) g

theorem contVal_nil (cur : Nat) : contVal cur [] = cur := rfl
theorem contVal_cons (cur c : Nat) (g : List Nat) : contVal cur (c :: g) = contVal (cur * 10 + (c - 48)) g := by
  unfold contVal; rw [List.foldl_cons]
theorem decVal_eq (g : List Nat) : decVal g = contVal 0 g := rfl

theorem contVal_ge (g : List Nat) : ∀ cur, cur * 10 ^ g.length ≤ contVal cur g := by
  induction g with
  | nil => intro cur; simp [contVal_nil]
  | cons c g ih =>
    intro cur
    rw [contVal_cons, List.length_cons, Nat.pow_succ]
    have := ih (cur * 10 + (c - 48))
    have h2 : cur * 10 * 10 ^ g.length ≤ (cur * 10 + (c - 48)) * 10 ^ g.length :=
      Nat.mul_le_mul_right _ (by omega)
    rw [Nat.mul_comm (10 ^ g.length) 10, ← Nat.mul_assoc]
    omega

theorem contVal_ge_self (g : List Nat) (cur : Nat) : cur ≤ contVal cur g := by
  have := contVal_ge g cur
  have hp : 1 ≤ 10 ^ g.length := Nat.pow_pos (by omega)
  have : cur * 1 ≤ cur * 10 ^ g.length := Nat.mul_le_mul_left _ hp
  omega

theorem contOK_true_iff (g : List Nat) : ∀ cur, contOK true cur g = true ↔
    (g.all isDigit = true ∧ (g = [] ∨ cur ≠ 0) ∧ (g = [] ∨ contVal cur g ≤ 255)) := by
  induction g with
  | nil => intro cur; simp [contOK]
  | cons c g ih =>
    intro cur
    have hge := contVal_ge_self g (cur * 10 + (c - 48))
    simp only [contOK, Bool.and_eq_true, Bool.not_eq_true', Bool.true_and, beq_eq_false_iff_ne, ne_eq,
      decide_eq_true_eq, ih, List.all_cons, contVal_cons, reduceCtorEq, false_or]
    constructor
    · rintro ⟨⟨⟨hd, hc⟩, hn⟩, hall, _, hv⟩
      refine ⟨⟨hd, hall⟩, hc, ?_⟩
      cases hv with
      | inl h => subst h; simpa [contVal_nil] using hn
      | inr h => exact h
    · rintro ⟨⟨hd, hall⟩, hc, hv⟩
      refine ⟨⟨⟨hd, hc⟩, by omega⟩, hall, ?_, ?_⟩
      · right; omega
      · right; exact hv

theorem isDigit_iff (c : Nat) : isDigit c = true ↔ (48 ≤ c ∧ c ≤ 57) := by simp [isDigit]

/-- the loop's acceptance of a whole octet is the specification's `octetOK` -/
theorem contOK_octetOK (g : List Nat) (hg : g ≠ []) : contOK false 0 g = octetOK g := by
  cases g with
  | nil => exact absurd rfl hg
  | cons c g =>
    have hiff := contOK_true_iff g (0 * 10 + (c - 48))
    have hge := contVal_ge g (0 * 10 + (c - 48))
    rw [Bool.eq_iff_iff]
    simp only [contOK, Bool.false_and, Bool.not_false, Bool.and_true, Bool.and_eq_true, decide_eq_true_eq, hiff,
      octetOK, List.length_cons, List.all_cons, List.head?_cons, Bool.or_eq_true, beq_iff_eq, bne_iff_ne, ne_eq,
      Option.some.injEq, decVal_eq, contVal_cons, isDigit_iff]
    constructor
    · rintro ⟨⟨hd, h255⟩, hall, hz, hv⟩
      have hlen : g.length ≤ 2 := by
        cases hz with
        | inl h => subst h; simp
        | inr hz =>
          cases hv with
          | inl h => subst h; simp
          | inr hv =>
            by_cases hl : g.length ≤ 2
            · exact hl
            · have h3 : 10 ^ 3 ≤ 10 ^ g.length := Nat.pow_le_pow_right (by omega) (by omega)
              have : 1 * 10 ^ g.length ≤ (0 * 10 + (c - 48)) * 10 ^ g.length := Nat.mul_le_mul_right _ (by omega)
              omega
      refine ⟨⟨⟨⟨by omega, by omega⟩, hd, hall⟩, ?_⟩, ?_⟩
      · cases hz with
        | inl h => left; subst h; rfl
        | inr h => right; omega
      · cases hv with
        | inl h => subst h; simpa [contVal_nil] using h255
        | inr h => exact h
    · rintro ⟨⟨⟨_, hd, hall⟩, hz⟩, hv⟩
      have hself := contVal_ge_self g (0 * 10 + (c - 48))
      refine ⟨⟨hd, by omega⟩, hall, ?_, Or.inr hv⟩
      cases hz with
      | inl h => left; exact List.eq_nil_of_length_eq_zero (by omega)
      | inr h => right; omega

/-! ### the loop over one group -/

theorem pton4_step_digit (ch : Nat) (hd : isDigit ch = true) (rest : List Nat) (k : Nat) (saw : Bool) (cur : Nat)
    (acc : List Nat) :
    V4.pton4Loop (ch :: rest) k saw cur acc =
      if saw ∧ cur = 0 then none
      else if cur * 10 + (ch - 48) > 255 then none
      else if !saw then (if k + 1 > 4 then none else V4.pton4Loop rest (k + 1) true (cur * 10 + (ch - 48)) acc)
      else V4.pton4Loop rest k true (cur * 10 + (ch - 48)) acc := by
  have h := (isDigit_iff ch).mp hd
  rw [V4.pton4Loop]; simp only [h, and_self, if_true]

theorem pton4_step_bad (ch : Nat) (hd : isDigit ch = false) (h46 : ch ≠ 46) (rest : List Nat) (k : Nat) (saw : Bool)
    (cur : Nat) (acc : List Nat) : V4.pton4Loop (ch :: rest) k saw cur acc = none := by
  have h : ¬ (48 ≤ ch ∧ ch ≤ 57) := by
    intro hh; have := (isDigit_iff ch).mpr hh; rw [this] at hd; cases hd
  rw [V4.pton4Loop]; simp only [h, if_false, h46, false_and]

/-- continuing the current octet (at least one digit already seen) through the digits `g` -/
theorem pton4_cont (g : List Nat) (h46 : 46 ∉ g) : ∀ (rest : List Nat) (k cur : Nat) (acc : List Nat),
    V4.pton4Loop (g ++ rest) k true cur acc =
      if contOK true cur g = true then V4.pton4Loop rest k true (contVal cur g) acc else none := by
  induction g with
  | nil => intro rest k cur acc; simp [contOK, contVal_nil]
  | cons c g ih =>
    intro rest k cur acc
    have hc : c ≠ 46 := fun h => h46 (by simp [h])
    have hg : 46 ∉ g := fun h => h46 (List.mem_cons_of_mem _ h)
    rw [List.cons_append]
    cases hd : isDigit c with
    | false => rw [pton4_step_bad c hd hc]; simp [contOK, hd]
    | true =>
      rw [pton4_step_digit c hd, contVal_cons]
      by_cases hz : cur = 0
      · simp [contOK, hd, hz]
      · by_cases hv : cur * 10 + (c - 48) > 255
        · have : ¬ cur * 10 + (c - 48) ≤ 255 := by omega
          simp [contOK, hd, hz, hv, this]
        · have hv' : cur * 10 + (c - 48) ≤ 255 := by omega
          simp only [hz, and_false, if_false, hv, Bool.not_true, Bool.false_eq_true, ih hg]
          simp [contOK, hd, hz, hv']

/-- a whole octet from the start-of-octet state -/
theorem pton4_group (g : List Nat) (h46 : 46 ∉ g) (hg : g ≠ []) (rest : List Nat) (k : Nat) (hk : k < 4)
    (acc : List Nat) :
    V4.pton4Loop (g ++ rest) k false 0 acc =
      if octetOK g = true then V4.pton4Loop rest (k + 1) true (decVal g) acc else none := by
  rw [← contOK_octetOK g hg]
  cases g with
  | nil => exact absurd rfl hg
  | cons c g =>
    have hc : c ≠ 46 := fun h => h46 (by simp [h])
    have hg' : 46 ∉ g := fun h => h46 (List.mem_cons_of_mem _ h)
    rw [List.cons_append, decVal_eq, contVal_cons]
    cases hd : isDigit c with
    | false => rw [pton4_step_bad c hd hc]; simp [contOK, hd]
    | true =>
      rw [pton4_step_digit c hd]
      simp only [Bool.false_eq_true, false_and, if_false, Bool.not_false, if_true, Nat.zero_mul, Nat.zero_add]
      have hk' : ¬ k + 1 > 4 := by omega
      rw [if_neg hk', pton4_cont g hg']
      have e : contOK false 0 (c :: g) = (decide (c - 48 ≤ 255) && contOK true (c - 48) g) := by
        simp [contOK, hd]
      rw [e]
      by_cases hv : c - 48 ≤ 255
      · simp [hv, Nat.not_lt.mpr hv]
      · simp [hv, Nat.lt_of_not_le hv]

/-! ### decomposition of the text into groups -/

theorem split_decomp (sep : Nat) : ∀ (s g : List Nat) (gs : List (List Nat)), split sep s = g :: gs →
    sep ∉ g ∧ ((gs = [] ∧ s = g) ∨ (∃ s', s = g ++ sep :: s' ∧ split sep s' = gs))
  | [], g, gs, h => by
    have : g = [] ∧ gs = [] := by simpa [split] using h
    obtain ⟨rfl, rfl⟩ := this
    exact ⟨by simp, Or.inl ⟨rfl, rfl⟩⟩
  | c :: s, g, gs, h => by
    by_cases hc : c = sep
    · subst hc
      rw [split_sep] at h
      have : g = [] ∧ gs = split c s := by
        constructor
        · exact (List.cons.inj h).1.symm
        · exact (List.cons.inj h).2.symm
      obtain ⟨rfl, rfl⟩ := this
      exact ⟨by simp, Or.inr ⟨s, rfl, rfl⟩⟩
    · obtain ⟨g0, gs0, h0⟩ := split_exists sep s
      rw [split_cons sep c s hc h0] at h
      have hg : g = c :: g0 := (List.cons.inj h).1.symm
      have hgs : gs = gs0 := (List.cons.inj h).2.symm
      obtain ⟨hn, hcase⟩ := split_decomp sep s g0 gs0 h0
      rw [hg, hgs]
      refine ⟨by simp [hn, Ne.symm hc], ?_⟩
      cases hcase with
      | inl h => left; exact ⟨h.1, by rw [h.2]⟩
      | inr h =>
        obtain ⟨s', h1, h2⟩ := h
        right; exact ⟨s', by rw [h1]; rfl, h2⟩

/-- the reference `inet_pton4` loop from the start of an octet = the specification on the remaining groups -/
theorem pton4Loop_spec : ∀ (gs : List (List Nat)) (s : List Nat) (acc : List Nat), split 46 s = gs → acc.length < 4 →
    V4.pton4Loop s acc.length false 0 acc =
      if acc.length + gs.length = 4 ∧ gs.all octetOK = true then some (acc.reverse ++ gs.map decVal) else none
  | [], s, acc, h, _ => by
    obtain ⟨g, gs, hh⟩ := split_exists 46 s
    rw [hh] at h; cases h
  | g :: gs, s, acc, h, hk => by
    obtain ⟨h46, hcase⟩ := split_decomp 46 s g gs h
    by_cases hg : g = []
    · -- an empty group: the loop meets '.' or the end without having seen a digit
      subst hg
      have hbad : octetOK [] = false := by decide
      simp only [List.all_cons, hbad, Bool.false_and, Bool.false_eq_true, and_false, if_false]
      cases hcase with
      | inl h => rw [h.2, V4.pton4Loop, if_pos hk]
      | inr h =>
        obtain ⟨s', h1, _⟩ := h
        rw [h1, List.nil_append, V4.pton4Loop]; simp
    · cases hcase with
      | inl h =>
        obtain ⟨rfl, rfl⟩ := h
        have := pton4_group s h46 hg [] acc.length hk acc
        rw [List.append_nil] at this
        rw [this]
        by_cases hok : octetOK s = true
        · simp only [hok, if_true, V4.pton4Loop, List.length_cons, List.length_nil, List.all_cons, List.all_nil,
            Bool.and_true, and_true, List.map_cons, List.map_nil, List.reverse_cons]
          by_cases h4 : acc.length + 1 < 4
          · rw [if_pos h4, if_neg (by omega)]
          · rw [if_neg h4, if_pos (by omega)]
        · simp [hok]
      | inr h =>
        obtain ⟨s', rfl, h2⟩ := h
        rw [pton4_group g h46 hg _ acc.length hk acc]
        by_cases hok : octetOK g = true
        · simp only [hok, if_true, pton4_dot, List.all_cons, Bool.true_and, List.length_cons, List.map_cons]
          by_cases h4 : acc.length + 1 = 4
          · rw [if_pos h4, if_neg]
            obtain ⟨g1, gs1, hh⟩ := split_exists 46 s'
            rw [← h2, hh]; simp only [List.length_cons]; omega
          · rw [if_neg h4]
            have ih := pton4Loop_spec gs s' (decVal g :: acc) h2 (by simp; omega)
            simp only [List.length_cons] at ih
            rw [ih]
            have e : acc.length + 1 + gs.length = acc.length + (gs.length + 1) := by omega
            simp only [e, List.reverse_cons, List.append_assoc, List.singleton_append]
        · simp [hok]

theorem pton4_eq_spec (s : List Nat) : V4.pton4Loop s 0 false 0 [] = Spec.parse4 s := by
  have := pton4Loop_spec (split 46 s) s [] rfl (by simp)
  simp only [List.length_nil, Nat.zero_add, List.reverse_nil, List.nil_append] at this
  rw [this]; rfl

theorem octetOK_le (g : List Nat) (h : octetOK g = true) : decVal g ≤ 255 := by
  unfold octetOK at h
  simp only [Bool.and_eq_true, decide_eq_true_eq] at h
  exact h.2

/-- `IPv4Address(const std::string&)` under the `inet_pton` reference model: accepts exactly the strict dotted
    quads and stores the number they denote -/
theorem v4_parse_eq_spec (s : List Nat) : V4.parse s = (Spec.parse4 s).map Spec.val := by
  unfold V4.parse
  rw [pton4_eq_spec]
  unfold Spec.parse4
  by_cases h : (split 46 s).length = 4 ∧ (split 46 s).all octetOK = true
  · simp only [h, and_self, if_true, Option.map_some]
    obtain ⟨hl, hall⟩ := h
    match hgs : split 46 s, hl with
    | [g0, g1, g2, g3], _ =>
      rw [hgs] at hall
      simp only [List.all_cons, List.all_nil, Bool.and_true, Bool.and_eq_true] at hall
      obtain ⟨h0, h1, h2, h3⟩ := hall
      have b0 := octetOK_le g0 h0
      have b1 := octetOK_le g1 h1
      have b2 := octetOK_le g2 h2
      have b3 := octetOK_le g3 h3
      simp only [List.map_cons, List.map_nil]
      have e : decVal g0 + decVal g1 * 256 + decVal g2 * 65536 + decVal g3 * 16777216 =
          decVal g3 * 16777216 + decVal g2 * 65536 + decVal g1 * 256 + decVal g0 := by omega
      rw [e, bswap32_bytes _ _ _ _ (by omega) (by omega) (by omega) (by omega)]
      simp only [Spec.val, List.foldl_cons, List.foldl_nil, Option.some.injEq]
      omega
  · rw [if_neg h]; rfl

end Tins.Addr
