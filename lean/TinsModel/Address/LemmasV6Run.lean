import TinsModel.Address.LemmasV6Canon
/- RFC 5952 §4.2 read off `Spec.bestRun`: the run that "::" replaces has at least two groups, consists of zero groups,
   no run of zero groups is longer, and no run of the same length starts earlier; when there is none, no two adjacent
   groups are zero.  Proved through the zero-pattern abstraction (256 patterns, complete enumeration). -/
namespace Tins.Addr
open Spec

/-- the RFC 5952 §4.2 conditions on a choice `r` for the zero pattern `ps`, as a decidable check -/
def runSpecP (ps : List Bool) (r : Option (Nat × Nat)) : Bool :=
  match r with
  | none => (List.range 9).all fun i => !(zeroRunP ps i 2)
  | some (i, l) =>
    decide (2 ≤ l) && zeroRunP ps i l &&
    (List.range 9).all (fun i' => (List.range 9).all fun l' =>
      !(zeroRunP ps i' l') || (decide (l' ≤ l) && (decide (l' < l) || decide (i ≤ i'))))

set_option maxRecDepth 100000 in
theorem bestRunP_spec_t : ∀ p1 p2 p3 p4 p5 p6 p7 : Bool,
    runSpecP [true, p1, p2, p3, p4, p5, p6, p7] (bestRunP [true, p1, p2, p3, p4, p5, p6, p7]) = true := by decide

set_option maxRecDepth 100000 in
theorem bestRunP_spec_f : ∀ p1 p2 p3 p4 p5 p6 p7 : Bool,
    runSpecP [false, p1, p2, p3, p4, p5, p6, p7] (bestRunP [false, p1, p2, p3, p4, p5, p6, p7]) = true := by decide

theorem bestRunP_spec (ps : List Bool) (h : ps.length = 8) : runSpecP ps (bestRunP ps) = true := by
  match ps, h with
  | [p0, p1, p2, p3, p4, p5, p6, p7], _ =>
    cases p0
    · exact bestRunP_spec_f p1 p2 p3 p4 p5 p6 p7
    · exact bestRunP_spec_t p1 p2 p3 p4 p5 p6 p7

theorem zeroRunP_bound (ps : List Bool) (i l : Nat) (h : zeroRunP ps i l = true) : i + l ≤ ps.length := by
  unfold zeroRunP at h
  simp only [Bool.and_eq_true, decide_eq_true_eq] at h
  exact h.1

/-- **RFC 5952 §4.2 for `Spec.bestRun`** (eight groups): see the head of the file -/
theorem bestRun_rfc5952 (gs : List Nat) (h : gs.length = 8) :
    match bestRun gs with
    | none => ∀ i, zeroRun gs i 2 = false
    | some (i, l) =>
      2 ≤ l ∧ zeroRun gs i l = true ∧
      ∀ i' l', zeroRun gs i' l' = true → l' ≤ l ∧ (l' = l → i ≤ i') := by
  have hlen : (gs.map (fun w => w == 0)).length = 8 := by rw [List.length_map, h]
  have hs := bestRunP_spec (gs.map (fun w => w == 0)) hlen
  rw [bestRun_eq_bestRunP]
  cases hb : bestRunP (gs.map (fun w => w == 0)) with
  | none =>
    rw [hb] at hs
    intro i
    rw [zeroRun_eq_zeroRunP]
    cases hz : zeroRunP (gs.map (fun w => w == 0)) i 2 with
    | false => rfl
    | true =>
      have hbnd := zeroRunP_bound _ _ _ hz
      rw [hlen] at hbnd
      simp only [runSpecP, List.all_eq_true, List.mem_range, Bool.not_eq_true'] at hs
      have := hs i (by omega)
      rw [hz] at this; cases this
  | some r =>
    obtain ⟨i, l⟩ := r
    rw [hb] at hs
    simp only [runSpecP, Bool.and_eq_true, decide_eq_true_eq, List.all_eq_true, List.mem_range, Bool.or_eq_true,
      Bool.not_eq_true'] at hs
    obtain ⟨⟨h2, hz⟩, hall⟩ := hs
    refine ⟨h2, by rw [zeroRun_eq_zeroRunP]; exact hz, ?_⟩
    intro i' l' hz'
    rw [zeroRun_eq_zeroRunP] at hz'
    have hbnd := zeroRunP_bound _ _ _ hz'
    rw [hlen] at hbnd
    have := hall i' (by omega) l' (by omega)
    rcases this with hf | ⟨hle, hlt | hi⟩
    · rw [hz'] at hf; cases hf
    · exact ⟨hle, by omega⟩
    · exact ⟨hle, fun _ => hi⟩

/-! ### one group (RFC 5952 §4.1, §4.3) -/

theorem hexDigitVal_hexChar : ∀ d, d < 16 → hexDigitVal (V6.hexChar d) = d ∧
    ((48 ≤ V6.hexChar d ∧ V6.hexChar d ≤ 57) ∨ (97 ≤ V6.hexChar d ∧ V6.hexChar d ≤ 102)) ∧
    (V6.hexChar d = 48 ↔ d = 0) := by decide

/-- RFC 5952 §4.1, §4.3 for one group: one to four characters from `0-9a-f`, no leading zero unless the text is "0",
    and the text denotes the group's value -/
theorem hexNumeral_form (v : Nat) (h : v < 65536) :
    1 ≤ (hexNumeral v).length ∧ (hexNumeral v).length ≤ 4 ∧
    (∀ c ∈ hexNumeral v, (48 ≤ c ∧ c ≤ 57) ∨ (97 ≤ c ∧ c ≤ 102)) ∧
    ((hexNumeral v).head? = some 48 → hexNumeral v = [48]) ∧ groupVal (hexNumeral v) = v := by
  rw [← fmtHex_eq_hexNumeral v h]
  unfold V6.fmtHex
  have e1 := hexDigitVal_hexChar (v % 16) (by omega)
  have e2 := hexDigitVal_hexChar (v / 16 % 16) (by omega)
  have e3 := hexDigitVal_hexChar (v / 256 % 16) (by omega)
  have e4 := hexDigitVal_hexChar (v / 4096 % 16) (by omega)
  by_cases h1 : v < 16
  · have e := hexDigitVal_hexChar v h1
    simp only [h1, if_true, List.length_singleton, List.mem_singleton, List.head?_cons, Option.some.injEq, groupVal,
      List.foldl_cons, List.foldl_nil]
    refine ⟨by omega, by omega, ?_, ?_, by omega⟩
    · intro c hc; subst hc; exact e.2.1
    · intro hh; rw [hh]
  · by_cases h2 : v < 256
    · have e := hexDigitVal_hexChar (v / 16) (by omega)
      simp only [h1, h2, if_true, if_false, List.length_cons, List.length_nil, List.mem_cons, List.not_mem_nil, or_false,
        List.head?_cons, Option.some.injEq, groupVal, List.foldl_cons, List.foldl_nil]
      refine ⟨by omega, by omega, ?_, ?_, by omega⟩
      · rintro c (hc | hc) <;> subst hc
        · exact e.2.1
        · exact e1.2.1
      · intro hh; have := e.2.2.mp hh; omega
    · by_cases h3 : v < 4096
      · have e := hexDigitVal_hexChar (v / 256) (by omega)
        simp only [h1, h2, h3, if_true, if_false, List.length_cons, List.length_nil, List.mem_cons, List.not_mem_nil,
          or_false, List.head?_cons, Option.some.injEq, groupVal, List.foldl_cons, List.foldl_nil]
        refine ⟨by omega, by omega, ?_, ?_, by omega⟩
        · rintro c (hc | hc | hc) <;> subst hc
          · exact e.2.1
          · exact e2.2.1
          · exact e1.2.1
        · intro hh; have := e.2.2.mp hh; omega
      · simp only [h1, h2, h3, if_false, List.length_cons, List.length_nil, List.mem_cons, List.not_mem_nil,
          or_false, List.head?_cons, Option.some.injEq, groupVal, List.foldl_cons, List.foldl_nil]
        refine ⟨by omega, by omega, ?_, ?_, by omega⟩
        · rintro c (hc | hc | hc | hc) <;> subst hc
          · exact e4.2.1
          · exact e3.2.1
          · exact e2.2.1
          · exact e1.2.1
        · intro hh; have := e4.2.2.mp hh; omega
end Tins.Addr
