import TinsModel.Address.LemmasV4Grammar
/- The `inet_pton(AF_INET6)` reference model accepts exactly the RFC 4291 texts of Spec.parse6, with the same bytes. -/
namespace Tins.Addr
open Spec

/-! ### characters -/

theorem isHex_iff (c : Nat) :
    isHex c = true ↔ ((48 ≤ c ∧ c ≤ 57) ∨ (97 ≤ c ∧ c ≤ 102)) ∨ (65 ≤ c ∧ c ≤ 70) := by
  simp [isHex]

theorem hdv_some {c : Nat} (h : isHex c = true) :
    V6.hexDigitValue c = some (hexDigitVal c) ∧ hexDigitVal c < 16 := by
  have hi := (isHex_iff c).mp h
  unfold V6.hexDigitValue hexDigitVal
  by_cases h1 : 48 ≤ c ∧ c ≤ 57
  · rw [if_pos h1, if_pos (by omega)]; exact ⟨rfl, by omega⟩
  · rw [if_neg h1]
    by_cases h2 : 97 ≤ c ∧ c ≤ 102
    · rw [if_pos h2, if_neg (by omega), if_neg (by omega)]
      exact ⟨by congr 1; omega, by omega⟩
    · rw [if_neg h2]
      have h3 : 65 ≤ c ∧ c ≤ 70 := by omega
      rw [if_pos h3, if_neg (by omega), if_pos (by omega)]
      exact ⟨by congr 1; omega, by omega⟩

theorem hdv_none {c : Nat} (h : isHex c = false) : V6.hexDigitValue c = none := by
  have hi : ¬ (((48 ≤ c ∧ c ≤ 57) ∨ (97 ≤ c ∧ c ≤ 102)) ∨ (65 ≤ c ∧ c ≤ 70)) := by
    intro hh; rw [(isHex_iff c).mpr hh] at h; cases h
  unfold V6.hexDigitValue
  rw [if_neg (by omega), if_neg (by omega), if_neg (by omega)]

theorem isHex_58 : isHex 58 = false := by decide
theorem isHex_46 : isHex 46 = false := by decide

theorem isDigit_isHex {c : Nat} (h : isDigit c = true) : isHex c = true := by
  have := (isDigit_iff c).mp h
  exact (isHex_iff c).mpr (by omega)

theorem shl4_or (v d : Nat) (hd : d < 16) : (v <<< 4) ||| d = v * 16 + d := by
  rw [← Nat.shiftLeft_add_eq_or_of_lt (i := 4) (by omega) v, Nat.shiftLeft_eq]

/-! ### the scanning loop through a run of hex digits -/

def hexFold (val : Nat) (h : List Nat) : Nat := h.foldl (fun acc c => acc * 16 + hexDigitVal c) val

theorem hexFold_nil (val : Nat) : hexFold val [] = val := rfl
theorem hexFold_cons (val c : Nat) (h : List Nat) : hexFold val (c :: h) = hexFold (val * 16 + hexDigitVal c) h := by
  unfold hexFold; rw [List.foldl_cons]
theorem groupVal_eq (g : List Nat) : groupVal g = hexFold 0 g := rfl

theorem hexFold_lt (h : List Nat) (hh : h.all isHex = true) : ∀ (val k : Nat), val < 16 ^ k →
    hexFold val h < 16 ^ (k + h.length) := by
  induction h with
  | nil => intro val k hv; simpa [hexFold_nil] using hv
  | cons c h ih =>
    intro val k hv
    simp only [List.all_cons, Bool.and_eq_true] at hh
    have hd := (hdv_some hh.1).2
    rw [hexFold_cons, List.length_cons]
    have := ih hh.2 (val * 16 + hexDigitVal c) (k + 1) (by rw [Nat.pow_succ]; omega)
    have e : k + 1 + h.length = k + (h.length + 1) := by omega
    rw [e] at this; exact this

theorem loop_hex (c : Nat) (hc : isHex c = true) (rest ct : List Nat) (seen val : Nat) (tp : List Nat)
    (cp : Option Nat) :
    V6.pton6Loop (c :: rest) ct seen val tp cp =
      if seen = 4 then none
      else if val * 16 + hexDigitVal c > 0xffff then none
      else V6.pton6Loop rest ct (seen + 1) (val * 16 + hexDigitVal c) tp cp := by
  obtain ⟨h1, h2⟩ := hdv_some hc
  rw [V6.pton6Loop, h1]
  simp only [shl4_or _ _ h2]

theorem loop_run (h : List Nat) (hh : h.all isHex = true) : ∀ (rest ct : List Nat) (seen val : Nat) (tp : List Nat)
    (cp : Option Nat), seen + h.length ≤ 4 → val < 16 ^ seen →
    V6.pton6Loop (h ++ rest) ct seen val tp cp =
      V6.pton6Loop rest ct (seen + h.length) (hexFold val h) tp cp := by
  induction h with
  | nil => intro rest ct seen val tp cp _ _; simp [hexFold_nil]
  | cons c h ih =>
    intro rest ct seen val tp cp hl hv
    simp only [List.all_cons, Bool.and_eq_true] at hh
    have hd := (hdv_some hh.1).2
    simp only [List.length_cons] at hl
    have hp : 16 ^ seen ≤ 16 ^ 3 := Nat.pow_le_pow_right (by omega) (by omega)
    rw [List.cons_append, loop_hex c hh.1, if_neg (by omega), if_neg (by omega), hexFold_cons,
      ih hh.2 rest ct (seen + 1) _ tp cp (by omega) (by rw [Nat.pow_succ]; omega)]
    have e : seen + 1 + h.length = seen + (h.length + 1) := by omega
    rw [List.length_cons, e]

theorem loop_run_long (h : List Nat) (hh : h.all isHex = true) : ∀ (rest ct : List Nat) (seen val : Nat)
    (tp : List Nat) (cp : Option Nat), seen ≤ 4 → seen + h.length > 4 → val < 16 ^ seen →
    V6.pton6Loop (h ++ rest) ct seen val tp cp = none := by
  induction h with
  | nil => intro rest ct seen val tp cp h1 h2 _; simp at h2; omega
  | cons c h ih =>
    intro rest ct seen val tp cp h1 h2 hv
    simp only [List.all_cons, Bool.and_eq_true] at hh
    have hd := (hdv_some hh.1).2
    simp only [List.length_cons] at h2
    rw [List.cons_append, loop_hex c hh.1]
    by_cases h4 : seen = 4
    · rw [if_pos h4]
    · rw [if_neg h4]
      have hp : 16 ^ seen ≤ 16 ^ 3 := Nat.pow_le_pow_right (by omega) (by omega)
      rw [if_neg (by omega)]
      exact ih hh.2 rest ct (seen + 1) _ tp cp (by omega) (by omega) (by rw [Nat.pow_succ]; omega)

/-! ### the scanning loop at a character that is not a hex digit -/

theorem finish0 (val : Nat) (tp : List Nat) (cp : Option Nat) :
    V6.pton6Finish 0 val tp cp = V6.pton6Finish 0 0 tp cp := by
  simp [V6.pton6Finish]

theorem loop_colon0 (rest ct : List Nat) (val : Nat) (tp : List Nat) (cp : Option Nat) :
    V6.pton6Loop (58 :: rest) ct 0 val tp cp =
      if cp.isSome then none else V6.pton6Loop rest rest 0 val tp (some tp.length) := by
  rw [V6.pton6Loop, hdv_none isHex_58]; simp

theorem loop_colon (rest ct : List Nat) (seen val : Nat) (hs : seen ≠ 0) (tp : List Nat) (cp : Option Nat) :
    V6.pton6Loop (58 :: rest) ct seen val tp cp =
      if rest = [] then none else if tp.length + 2 > 16 then none
      else V6.pton6Loop rest rest 0 0 (tp ++ V6.store16 val) cp := by
  rw [V6.pton6Loop, hdv_none isHex_58]; simp [hs]

theorem loop_dot (rest ct : List Nat) (seen val : Nat) (tp : List Nat) (cp : Option Nat) :
    V6.pton6Loop (46 :: rest) ct seen val tp cp =
      if tp.length + 4 ≤ 16 then
        (match parse4 ct with
         | some q => V6.pton6Finish 0 0 (tp ++ q) cp
         | none => none)
      else none := by
  rw [V6.pton6Loop, hdv_none isHex_46, pton4_eq_spec]
  by_cases h : tp.length + 4 ≤ 16
  · simp only [h, and_self, if_true, Nat.reduceEqDiff, if_false]
    cases parse4 ct with
    | none => rfl
    | some q => simp only [finish0 val]
  · simp [h]

theorem loop_bad (c : Nat) (hc : isHex c = false) (h58 : c ≠ 58) (h46 : c ≠ 46) (rest ct : List Nat) (seen val : Nat)
    (tp : List Nat) (cp : Option Nat) : V6.pton6Loop (c :: rest) ct seen val tp cp = none := by
  rw [V6.pton6Loop, hdv_none hc]; simp [h58, h46]

/-! ### `split` and `parse4` facts -/

theorem split_nosep (sep : Nat) : ∀ (g : List Nat), sep ∉ g → split sep g = [g]
  | [], _ => rfl
  | c :: g, h => by
    have hc : c ≠ sep := fun e => h (by simp [e])
    have hg : sep ∉ g := fun e => h (List.mem_cons_of_mem _ e)
    rw [split_cons sep c g hc (split_nosep sep g hg)]

theorem split_append_sep (sep : Nat) (t : List Nat) : ∀ (g : List Nat), sep ∉ g →
    split sep (g ++ sep :: t) = g :: split sep t
  | [], _ => by rw [List.nil_append, split_sep]
  | c :: g, h => by
    have hc : c ≠ sep := fun e => h (by simp [e])
    have hg : sep ∉ g := fun e => h (List.mem_cons_of_mem _ e)
    rw [List.cons_append, split_cons sep c _ hc (split_append_sep sep t g hg)]

theorem split_append_nosep (sep : Nat) (r g0 : List Nat) (gs0 : List (List Nat)) (hr : split sep r = g0 :: gs0) :
    ∀ (h : List Nat), sep ∉ h → split sep (h ++ r) = (h ++ g0) :: gs0
  | [], _ => by simpa using hr
  | c :: h, hh => by
    have hc : c ≠ sep := fun e => hh (by simp [e])
    have hg : sep ∉ h := fun e => hh (List.mem_cons_of_mem _ e)
    rw [List.cons_append, split_cons sep c _ hc (split_append_nosep sep r g0 gs0 hr h hg)]; rfl

theorem mem_split (sep : Nat) : ∀ (s : List Nat) (c : Nat), c ∈ s → c = sep ∨ ∃ g, g ∈ split sep s ∧ c ∈ g
  | [], c, h => by cases h
  | a :: s, c, h => by
    by_cases ha : a = sep
    · subst ha
      rw [split_sep]
      rcases List.mem_cons.mp h with h | h
      · left; exact h
      · rcases mem_split a s c h with h | ⟨g, hg, hcg⟩
        · left; exact h
        · right; exact ⟨g, List.mem_cons_of_mem _ hg, hcg⟩
    · obtain ⟨g0, gs0, h0⟩ := split_exists sep s
      rw [split_cons sep a s ha h0]
      rcases List.mem_cons.mp h with h | h
      · right; exact ⟨a :: g0, by simp, by simp [h]⟩
      · rcases mem_split sep s c h with h | ⟨g, hg, hcg⟩
        · left; exact h
        · right
          rw [h0] at hg
          rcases List.mem_cons.mp hg with hg | hg
          · subst hg; exact ⟨a :: g, by simp, List.mem_cons_of_mem _ hcg⟩
          · exact ⟨g, List.mem_cons_of_mem _ hg, hcg⟩

theorem parse4_some {s q : List Nat} (h : parse4 s = some q) :
    (split 46 s).length = 4 ∧ (split 46 s).all octetOK = true ∧ q = (split 46 s).map decVal := by
  unfold parse4 at h
  by_cases hc : (split 46 s).length = 4 ∧ (split 46 s).all octetOK = true
  · simp only [hc, and_self, if_true, Option.some.injEq] at h
    exact ⟨hc.1, hc.2, h.symm⟩
  · simp only [hc, if_false] at h; cases h

theorem parse4_len {s q : List Nat} (h : parse4 s = some q) : q.length = 4 := by
  obtain ⟨h1, _, h3⟩ := parse4_some h
  rw [h3, List.length_map, h1]

theorem octetOK_all {g : List Nat} (h : octetOK g = true) : g.all isDigit = true ∧ g.length ≤ 3 := by
  unfold octetOK at h
  simp only [Bool.and_eq_true, decide_eq_true_eq] at h
  exact ⟨h.1.1.2, h.1.1.1.2⟩

theorem parse4_chars {s q : List Nat} (h : parse4 s = some q) (c : Nat) (hc : c ∈ s) : isDigit c = true ∨ c = 46 := by
  obtain ⟨_, h2, _⟩ := parse4_some h
  rcases mem_split 46 s c hc with h | ⟨g, hg, hcg⟩
  · right; exact h
  · left
    have := (octetOK_all (List.all_eq_true.mp h2 g hg)).1
    exact List.all_eq_true.mp this c hcg

theorem parse4_none_of_mem (s : List Nat) (c : Nat) (hc : c ∈ s) (hd : isDigit c = false) (h46 : c ≠ 46) :
    parse4 s = none := by
  cases h : parse4 s with
  | none => rfl
  | some q =>
    rcases parse4_chars h c hc with h | h
    · rw [h] at hd; cases hd
    · exact absurd h h46

theorem parse4_prefix_short (h r : List Nat) (h46 : 46 ∉ h) (hl : h.length > 3) : parse4 (h ++ r) = none := by
  cases hp : parse4 (h ++ r) with
  | none => rfl
  | some q =>
    obtain ⟨_, h2, _⟩ := parse4_some hp
    obtain ⟨g0, gs0, h0⟩ := split_exists 46 r
    rw [split_append_nosep 46 r g0 gs0 h0 h h46] at h2
    simp only [List.all_cons, Bool.and_eq_true] at h2
    have := (octetOK_all h2.1).2
    simp only [List.length_append] at this
    omega

theorem hexPrefix : ∀ (g : List Nat), ∃ h r, g = h ++ r ∧ h.all isHex = true ∧
    (r = [] ∨ ∃ c r', r = c :: r' ∧ isHex c = false)
  | [] => ⟨[], [], rfl, rfl, Or.inl rfl⟩
  | a :: g => by
    cases ha : isHex a with
    | false => exact ⟨[], a :: g, rfl, rfl, Or.inr ⟨a, g, rfl, ha⟩⟩
    | true =>
      obtain ⟨h, r, e, hh, hr⟩ := hexPrefix g
      exact ⟨a :: h, r, by rw [e]; rfl, by simp [ha, hh], hr⟩

theorem not_mem_of_allHex {h : List Nat} (hh : h.all isHex = true) {c : Nat} (hc : isHex c = false) : c ∉ h := by
  intro hm
  have := List.all_eq_true.mp hh c hm
  rw [hc] at this; cases this

/-! ### one token of the scanning loop -/

theorem unroll (h : List Nat) (hh : h.all isHex = true) (r ct tp : List Nat) (cp : Option Nat) :
    V6.pton6Loop (h ++ r) ct 0 0 tp cp =
      if h.length > 4 then none else V6.pton6Loop r ct h.length (groupVal h) tp cp := by
  by_cases hl : h.length > 4
  · rw [if_pos hl]
    exact loop_run_long h hh r ct 0 0 tp cp (by omega) (by omega) (by simp)
  · rw [if_neg hl, loop_run h hh r ct 0 0 tp cp (by omega) (by simp), Nat.zero_add, groupVal_eq]

theorem isDigit_false_of_isHex {c : Nat} (h : isHex c = false) : isDigit c = false := by
  cases hd : isDigit c with
  | false => rfl
  | true => rw [isDigit_isHex hd] at h; cases h

theorem hexGroupOK_iff (g : List Nat) : hexGroupOK g = true ↔ (1 ≤ g.length ∧ g.length ≤ 4) ∧ g.all isHex = true := by
  simp [hexGroupOK]

theorem store16_groupVal (g : List Nat) (h : hexGroupOK g = true) : V6.store16 (groupVal g) = groupBytes g := by
  obtain ⟨⟨_, h4⟩, hh⟩ := (hexGroupOK_iff g).mp h
  have h1 := hexFold_lt g hh 0 0 (by simp)
  have h2 : 16 ^ (0 + g.length) ≤ 16 ^ 4 := Nat.pow_le_pow_right (by omega) (by omega)
  rw [← groupVal_eq] at h1
  have h3 : groupVal g < 65536 := by omega
  unfold V6.store16 groupBytes
  congr 1
  omega

def fin (tp : List Nat) (cp : Option Nat) : Option (List Nat) := V6.pton6Finish 0 0 tp cp

theorem finish_pos (seen val : Nat) (hs : seen > 0) (tp : List Nat) (cp : Option Nat) :
    V6.pton6Finish seen val tp cp = if tp.length + 2 > 16 then none else fin (tp ++ V6.store16 val) cp := by
  unfold fin V6.pton6Finish
  by_cases h : tp.length + 2 > 16
  · simp [hs, h]
  · simp [hs, h]

/-- what the grammar says about the rest `t` of the text when the bytes `tp` are already there -/
def tailFin (tp : List Nat) (cp : Option Nat) (t : List Nat) : Option (List Nat) :=
  match tailPieces (pieces t) with
  | some bs => if tp.length + bs.length ≤ 16 then fin (tp ++ bs) cp else none
  | none => none

theorem pieces_nil : pieces [] = [] := rfl
theorem pieces_ne {t : List Nat} (h : t ≠ []) : pieces t = split 58 t := by
  unfold pieces; rw [if_neg h]
theorem pieces_nosep {g : List Nat} (h : g ≠ []) (h58 : 58 ∉ g) : pieces g = [g] := by
  rw [pieces_ne h, split_nosep 58 g h58]

theorem tailPieces_single (g : List Nat) :
    tailPieces [g] = if hexGroupOK g then some (groupBytes g) else parse4 g := rfl

theorem tailFin_nil (tp : List Nat) (cp : Option Nat) (h : tp.length ≤ 16) : tailFin tp cp [] = fin tp cp := by
  simp [tailFin, pieces_nil, tailPieces, h]

theorem tailFin_hex (tp g : List Nat) (cp : Option Nat) (h58 : 58 ∉ g) (h : hexGroupOK g = true) :
    tailFin tp cp g = if tp.length + 2 ≤ 16 then fin (tp ++ groupBytes g) cp else none := by
  have hne : g ≠ [] := by
    intro e; subst e; cases h
  unfold tailFin
  rw [pieces_nosep hne h58, tailPieces_single, if_pos h]
  simp [groupBytes]

theorem tailFin_quad (tp g : List Nat) (cp : Option Nat) (hne : g ≠ []) (h58 : 58 ∉ g) (h : hexGroupOK g = false) :
    tailFin tp cp g =
      match parse4 g with
      | some bs => if tp.length + 4 ≤ 16 then fin (tp ++ bs) cp else none
      | none => none := by
  unfold tailFin
  rw [pieces_nosep hne h58, tailPieces_single, h]
  simp only [Bool.false_eq_true, if_false]
  cases hp : parse4 g with
  | none => rfl
  | some bs => simp only [parse4_len hp]

theorem hexGroupOK_long {g : List Nat} (h : g.length > 4) : hexGroupOK g = false := by
  cases hg : hexGroupOK g with
  | false => rfl
  | true => have := ((hexGroupOK_iff g).mp hg).1.2; omega

theorem hexGroupOK_mem {g : List Nat} {c : Nat} (hc : c ∈ g) (h : isHex c = false) : hexGroupOK g = false := by
  cases hg : hexGroupOK g with
  | false => rfl
  | true =>
    have := List.all_eq_true.mp ((hexGroupOK_iff g).mp hg).2 c hc
    rw [h] at this; cases this

/-- the last token of the text (no ':' follows) -/
theorem tok_last (g : List Nat) (h58 : 58 ∉ g) (tp : List Nat) (cp : Option Nat) (htp : tp.length ≤ 16) :
    V6.pton6Loop g g 0 0 tp cp = tailFin tp cp g := by
  obtain ⟨h, r, e, hh, hr⟩ := hexPrefix g
  have h46 : 46 ∉ h := not_mem_of_allHex hh isHex_46
  have hun := unroll h hh r g tp cp
  rw [← e] at hun
  rw [hun]
  rcases hr with hr | ⟨c, r', hr, hc⟩
  · subst hr
    rw [List.append_nil] at e
    subst e
    by_cases hl : g.length > 4
    · rw [if_pos hl]
      have hne : g ≠ [] := by intro e; subst e; simp at hl
      rw [tailFin_quad tp g cp hne h58 (hexGroupOK_long hl)]
      have := parse4_prefix_short g [] h46 (by omega)
      rw [List.append_nil] at this
      rw [this]
    · rw [if_neg hl, V6.pton6Loop]
      by_cases hne : g = []
      · subst hne
        rw [tailFin_nil tp cp htp]; rfl
      · have hpos : g.length > 0 := List.length_pos_iff.mpr hne
        have hok : hexGroupOK g = true := (hexGroupOK_iff g).mpr ⟨⟨by omega, by omega⟩, hh⟩
        rw [finish_pos _ _ hpos, tailFin_hex tp g cp h58 hok, store16_groupVal g hok]
        by_cases h2 : tp.length + 2 > 16
        · rw [if_pos h2, if_neg (by omega)]
        · rw [if_neg h2, if_pos (by omega)]
  · subst hr
    have hcg : c ∈ g := by rw [e]; simp
    have hne : g ≠ [] := by intro e; subst e; cases hcg
    have hc58 : c ≠ 58 := fun e => h58 (e ▸ hcg)
    rw [tailFin_quad tp g cp hne h58 (hexGroupOK_mem hcg hc)]
    by_cases hl : h.length > 4
    · rw [if_pos hl]
      have := parse4_prefix_short h (c :: r') h46 (by omega)
      rw [← e] at this
      rw [this]
    · rw [if_neg hl]
      by_cases hc46 : c = 46
      · subst hc46
        rw [loop_dot]
        cases parse4 g with
        | none => simp
        | some q => rfl
      · rw [loop_bad c hc hc58 hc46, parse4_none_of_mem g c hcg (isDigit_false_of_isHex hc) hc46]

/-- a token followed by ':' -/
theorem tok_colon (g : List Nat) (h58 : 58 ∉ g) (t' tp : List Nat) (cp : Option Nat) :
    V6.pton6Loop (g ++ 58 :: t') (g ++ 58 :: t') 0 0 tp cp =
      if g = [] then (if cp.isSome then none else V6.pton6Loop t' t' 0 0 tp (some tp.length))
      else if hexGroupOK g = true then
        (if t' = [] then none else if tp.length + 2 > 16 then none
         else V6.pton6Loop t' t' 0 0 (tp ++ groupBytes g) cp)
      else none := by
  obtain ⟨h, r, e, hh, hr⟩ := hexPrefix g
  have hun := unroll h hh (r ++ 58 :: t') (g ++ 58 :: t') tp cp
  rw [← List.append_assoc, ← e] at hun
  rw [hun]
  rcases hr with hr | ⟨c, r', hr, hc⟩
  · subst hr
    rw [List.append_nil] at e
    subst e
    rw [List.nil_append]
    by_cases hl : g.length > 4
    · have hne : g ≠ [] := by intro e; subst e; simp at hl
      rw [if_pos hl, if_neg hne, hexGroupOK_long hl]; simp
    · rw [if_neg hl]
      by_cases hne : g = []
      · subst hne
        rw [if_pos rfl, List.length_nil, loop_colon0]; rfl
      · have hpos : g.length > 0 := List.length_pos_iff.mpr hne
        have hok : hexGroupOK g = true := (hexGroupOK_iff g).mpr ⟨⟨by omega, by omega⟩, hh⟩
        rw [if_neg hne, if_pos hok, loop_colon _ _ _ _ (by omega), store16_groupVal g hok]
  · subst hr
    have hcg : c ∈ g := by rw [e]; simp
    have hne : g ≠ [] := by intro e; subst e; cases hcg
    have hc58 : c ≠ 58 := fun e => h58 (e ▸ hcg)
    rw [if_neg hne, hexGroupOK_mem hcg hc]
    simp only [Bool.false_eq_true, if_false]
    by_cases hl : h.length > 4
    · rw [if_pos hl]
    · rw [if_neg hl, List.cons_append]
      by_cases hc46 : c = 46
      · subst hc46
        rw [loop_dot, parse4_none_of_mem (g ++ 58 :: t') 58 (by simp) (by decide) (by decide)]
        simp
      · rw [loop_bad c hc hc58 hc46]

/-! ### the grammar side, token by token -/

theorem decomp58 (t : List Nat) : ∃ g, 58 ∉ g ∧ (t = g ∨ ∃ t', t = g ++ 58 :: t') := by
  obtain ⟨g, gs, h⟩ := split_exists 58 t
  obtain ⟨hn, hcase⟩ := split_decomp 58 t g gs h
  refine ⟨g, hn, ?_⟩
  rcases hcase with h | ⟨s', h1, _⟩
  · left; exact h.2
  · right; exact ⟨s', h1⟩

theorem tailPieces_cons2 (g g' : List Nat) (gs : List (List Nat)) :
    tailPieces (g :: g' :: gs) = if hexGroupOK g then (tailPieces (g' :: gs)).map (groupBytes g ++ ·) else none := rfl

theorem groupBytes_len (g : List Nat) : (groupBytes g).length = 2 := rfl

theorem pieces_colon (g : List Nat) (h58 : 58 ∉ g) (t' : List Nat) : pieces (g ++ 58 :: t') = g :: split 58 t' := by
  rw [pieces_ne (by simp), split_append_sep 58 t' g h58]

theorem tailFin_colon (g : List Nat) (h58 : 58 ∉ g) (t' tp : List Nat) (cp : Option Nat) :
    tailFin tp cp (g ++ 58 :: t') =
      if hexGroupOK g = true then
        (if t' = [] then none else if tp.length + 2 > 16 then none else tailFin (tp ++ groupBytes g) cp t')
      else none := by
  unfold tailFin
  rw [pieces_colon g h58]
  obtain ⟨g1, gs1, h1⟩ := split_exists 58 t'
  rw [h1, tailPieces_cons2]
  by_cases hok : hexGroupOK g = true
  · rw [if_pos hok, if_pos hok]
    by_cases ht : t' = []
    · subst ht
      have : g1 = [] ∧ gs1 = [] := by simpa [split] using h1
      obtain ⟨rfl, rfl⟩ := this
      rw [if_pos rfl]; rfl
    · rw [if_neg ht, pieces_ne ht, h1]
      cases tailPieces (g1 :: gs1) with
      | none => simp
      | some bs =>
        simp only [Option.map_some, List.length_append, groupBytes_len, List.append_assoc]
        by_cases h2 : tp.length + 2 > 16
        · rw [if_pos h2, if_neg (by omega)]
        · rw [if_neg h2]
          by_cases h3 : tp.length + (2 + bs.length) ≤ 16
          · rw [if_pos h3, if_pos (by omega)]
          · rw [if_neg h3, if_neg (by omega)]
  · rw [if_neg hok, if_neg hok]

/-- after a "::" has been seen: the rest of the text is a list of pieces -/
theorem loop_some : ∀ (n : Nat) (t : List Nat), t.length ≤ n → ∀ (tp : List Nat) (c : Nat), tp.length ≤ 16 →
    V6.pton6Loop t t 0 0 tp (some c) = tailFin tp (some c) t := by
  intro n
  induction n with
  | zero =>
    intro t hl tp c htp
    have : t = [] := List.eq_nil_of_length_eq_zero (by omega)
    subst this
    exact tok_last [] (by simp) tp (some c) htp
  | succ n ih =>
    intro t hl tp c htp
    obtain ⟨g, h58, ht | ⟨t', ht⟩⟩ := decomp58 t
    · subst ht; exact tok_last t h58 tp (some c) htp
    · subst ht
      rw [tok_colon g h58, tailFin_colon g h58]
      by_cases hg : g = []
      · subst hg; simp [hexGroupOK]
      · rw [if_neg hg]
        by_cases hok : hexGroupOK g = true
        · rw [if_pos hok, if_pos hok]
          by_cases ht : t' = []
          · rw [if_pos ht, if_pos ht]
          · rw [if_neg ht, if_neg ht]
            by_cases h2 : tp.length + 2 > 16
            · rw [if_pos h2, if_pos h2]
            · rw [if_neg h2, if_neg h2]
              apply ih
              · simp only [List.length_append, List.length_cons] at hl; omega
              · simp only [List.length_append, groupBytes_len]; omega
        · rw [if_neg hok, if_neg hok]

/-! ### `findDc` -/

theorem findDc_cons_none (a : Nat) (ha : a ≠ 58) (t : List Nat) (h : findDc t = none) : findDc (a :: t) = none := by
  cases t with
  | nil => rfl
  | cons b r => simp [findDc, ha, h]

theorem findDc_cons_some (a : Nat) (ha : a ≠ 58) (t l r : List Nat) (h : findDc t = some (l, r)) :
    findDc (a :: t) = some (a :: l, r) := by
  cases t with
  | nil => cases h
  | cons b r0 => simp [findDc, ha, h]

theorem findDc_cons_none' (a b : Nat) (hb : b ≠ 58) (t : List Nat) (h : findDc (b :: t) = none) :
    findDc (a :: b :: t) = none := by
  simp [findDc, hb, h]

theorem findDc_cons_some' (a b : Nat) (hb : b ≠ 58) (t l r : List Nat) (h : findDc (b :: t) = some (l, r)) :
    findDc (a :: b :: t) = some (a :: l, r) := by
  simp [findDc, hb, h]

theorem findDc_nosep : ∀ (g : List Nat), 58 ∉ g → findDc g = none
  | [], _ => rfl
  | a :: g, h => by
    have ha : a ≠ 58 := fun e => h (by simp [e])
    have hg : 58 ∉ g := fun e => h (List.mem_cons_of_mem _ e)
    exact findDc_cons_none a ha g (findDc_nosep g hg)

theorem findDc_dc (r : List Nat) : ∀ (g : List Nat), 58 ∉ g → findDc (g ++ 58 :: 58 :: r) = some (g, r)
  | [], _ => by simp [findDc]
  | a :: g, h => by
    have ha : a ≠ 58 := fun e => h (by simp [e])
    have hg : 58 ∉ g := fun e => h (List.mem_cons_of_mem _ e)
    exact findDc_cons_some a ha _ g r (findDc_dc r g hg)

/-- a ':' that is not followed by another ':' -/
def noColonHead (t : List Nat) : Prop := ∀ x, t ≠ 58 :: x

theorem findDc_colon_none (t' : List Nat) (ht : noColonHead t') (h : findDc t' = none) :
    ∀ (g : List Nat), 58 ∉ g → findDc (g ++ 58 :: t') = none
  | [], _ => by
    cases t' with
    | nil => rfl
    | cons b r =>
      have hb : b ≠ 58 := fun e => ht r (by rw [e])
      exact findDc_cons_none' 58 b hb r h
  | a :: g, hh => by
    have ha : a ≠ 58 := fun e => hh (by simp [e])
    have hg : 58 ∉ g := fun e => hh (List.mem_cons_of_mem _ e)
    exact findDc_cons_none a ha _ (findDc_colon_none t' ht h g hg)

theorem findDc_colon_some (t' l r : List Nat) (ht : noColonHead t') (h : findDc t' = some (l, r)) :
    ∀ (g : List Nat), 58 ∉ g → findDc (g ++ 58 :: t') = some (g ++ 58 :: l, r)
  | [], _ => by
    cases t' with
    | nil => cases h
    | cons b r0 =>
      have hb : b ≠ 58 := fun e => ht r0 (by rw [e])
      exact findDc_cons_some' 58 b hb r0 l r h
  | a :: g, hh => by
    have ha : a ≠ 58 := fun e => hh (by simp [e])
    have hg : 58 ∉ g := fun e => hh (List.mem_cons_of_mem _ e)
    exact findDc_cons_some a ha _ _ r (findDc_colon_some t' l r ht h g hg)

theorem findDc_left_ne (t l r : List Nat) (ht : noColonHead t) (h : findDc t = some (l, r)) : l ≠ [] := by
  cases t with
  | nil => cases h
  | cons a t =>
    have ha : a ≠ 58 := fun e => ht t (by rw [e])
    cases hf : findDc t with
    | none => rw [findDc_cons_none a ha t hf] at h; cases h
    | some p =>
      obtain ⟨l0, r0⟩ := p
      rw [findDc_cons_some a ha t l0 r0 hf] at h
      simp only [Option.some.injEq, Prod.mk.injEq] at h
      rw [← h.1]; simp

/-! ### before a "::" has been seen -/

/-- what the grammar says about the rest `t` of the text when no "::" has been met yet -/
def specD (tp t : List Nat) : Option (List Nat) :=
  match findDc t with
  | none => tailFin tp none t
  | some (l, r) =>
    match hexPieces (pieces l) with
    | some lb => if tp.length + lb.length ≤ 16 then tailFin (tp ++ lb) (some (tp.length + lb.length)) r else none
    | none => none

theorem specD_none {t : List Nat} (h : findDc t = none) (tp : List Nat) : specD tp t = tailFin tp none t := by
  unfold specD; rw [h]

theorem specD_some {t l r : List Nat} (h : findDc t = some (l, r)) (tp : List Nat) :
    specD tp t =
      match hexPieces (pieces l) with
      | some lb => if tp.length + lb.length ≤ 16 then tailFin (tp ++ lb) (some (tp.length + lb.length)) r else none
      | none => none := by
  unfold specD; rw [h]

theorem hexPieces_cons (g : List Nat) (gs : List (List Nat)) :
    hexPieces (g :: gs) = if hexGroupOK g then (hexPieces gs).map (groupBytes g ++ ·) else none := rfl

theorem specD_dc (g : List Nat) (h58 : 58 ∉ g) (hne : g ≠ []) (r tp : List Nat) :
    specD tp (g ++ 58 :: 58 :: r) =
      if hexGroupOK g = true then
        (if tp.length + 2 > 16 then none else tailFin (tp ++ groupBytes g) (some (tp ++ groupBytes g).length) r)
      else none := by
  rw [specD_some (findDc_dc r g h58), pieces_nosep hne h58, hexPieces_cons]
  by_cases hok : hexGroupOK g = true
  · rw [if_pos hok, if_pos hok]
    simp only [hexPieces, Option.map_some, List.append_nil, List.length_append]
    have e : (groupBytes g).length = 2 := rfl
    rw [e]
    by_cases h2 : tp.length + 2 > 16
    · rw [if_pos h2, if_neg (by omega)]
    · rw [if_neg h2, if_pos (by omega)]
  · rw [if_neg hok, if_neg hok]

theorem specD_colon (g : List Nat) (h58 : 58 ∉ g) (t' : List Nat) (ht : noColonHead t') (hne : t' ≠ [])
    (tp : List Nat) :
    specD tp (g ++ 58 :: t') =
      if hexGroupOK g = true then (if tp.length + 2 > 16 then none else specD (tp ++ groupBytes g) t')
      else none := by
  cases hf : findDc t' with
  | none =>
    rw [specD_none (findDc_colon_none t' ht hf g h58), specD_none hf, tailFin_colon g h58, if_neg hne]
  | some p =>
    obtain ⟨l, r⟩ := p
    have hl := findDc_left_ne t' l r ht hf
    rw [specD_some (findDc_colon_some t' l r ht hf g h58), specD_some hf, pieces_colon g h58, ← pieces_ne hl,
      hexPieces_cons]
    by_cases hok : hexGroupOK g = true
    · rw [if_pos hok, if_pos hok]
      cases hexPieces (pieces l) with
      | none => simp
      | some lb =>
        simp only [Option.map_some, List.length_append, groupBytes_len, List.append_assoc]
        by_cases h2 : tp.length + 2 > 16
        · rw [if_pos h2, if_neg (by omega)]
        · rw [if_neg h2]
          have e : tp.length + 2 + lb.length = tp.length + (2 + lb.length) := by omega
          rw [e]
    · rw [if_neg hok, if_neg hok]

/-- before a "::" has been seen, at the start of a piece that is not empty -/
theorem loop_none : ∀ (n : Nat) (t : List Nat), t.length ≤ n → noColonHead t → ∀ (tp : List Nat), tp.length ≤ 16 →
    V6.pton6Loop t t 0 0 tp none = specD tp t := by
  intro n
  induction n with
  | zero =>
    intro t hl _ tp htp
    have : t = [] := List.eq_nil_of_length_eq_zero (by omega)
    subst this
    rw [specD_none (findDc_nosep [] (by simp))]
    exact tok_last [] (by simp) tp none htp
  | succ n ih =>
    intro t hl hhead tp htp
    obtain ⟨g, h58, ht | ⟨t', ht⟩⟩ := decomp58 t
    · subst ht
      rw [specD_none (findDc_nosep t h58)]
      exact tok_last t h58 tp none htp
    · subst ht
      have hg : g ≠ [] := by
        intro e; subst e; exact hhead t' rfl
      rw [tok_colon g h58, if_neg hg]
      by_cases hdc : ∃ r, t' = 58 :: r
      · obtain ⟨r, rfl⟩ := hdc
        rw [specD_dc g h58 hg]
        by_cases hok : hexGroupOK g = true
        · rw [if_pos hok, if_pos hok, if_neg (by simp)]
          by_cases h2 : tp.length + 2 > 16
          · rw [if_pos h2, if_pos h2]
          · rw [if_neg h2, if_neg h2]
            have := tok_colon [] (by simp) r (tp ++ groupBytes g) none
            rw [List.nil_append] at this
            rw [this]
            simp only [if_true, Option.isSome_none, Bool.false_eq_true, if_false]
            exact loop_some r.length r (Nat.le_refl _) _ _
              (by simp only [List.length_append, groupBytes_len]; omega)
        · rw [if_neg hok, if_neg hok]
      · have hhead' : noColonHead t' := fun x e => hdc ⟨x, e⟩
        by_cases ht : t' = []
        · subst ht
          rw [specD_none (findDc_colon_none [] hhead' rfl g h58), tailFin_colon g h58]
          simp
        · rw [specD_colon g h58 t' hhead' ht, if_neg ht]
          by_cases hok : hexGroupOK g = true
          · rw [if_pos hok, if_pos hok]
            by_cases h2 : tp.length + 2 > 16
            · rw [if_pos h2, if_pos h2]
            · rw [if_neg h2, if_neg h2]
              apply ih
              · simp only [List.length_append, List.length_cons] at hl; omega
              · exact hhead'
              · simp only [List.length_append, groupBytes_len]; omega
          · rw [if_neg hok, if_neg hok]

/-! ### the whole text -/

theorem hexPieces_even : ∀ (gs : List (List Nat)) (lb : List Nat), hexPieces gs = some lb → lb.length % 2 = 0
  | [], lb, h => by
    have : lb = [] := by simpa [hexPieces] using h.symm
    subst this; rfl
  | g :: gs, lb, h => by
    rw [hexPieces_cons] at h
    by_cases hok : hexGroupOK g = true
    · rw [if_pos hok] at h
      cases hp : hexPieces gs with
      | none => rw [hp] at h; cases h
      | some lb0 =>
        rw [hp] at h
        simp only [Option.map_some, Option.some.injEq] at h
        have := hexPieces_even gs lb0 hp
        rw [← h, List.length_append, groupBytes_len]; omega
    · rw [if_neg hok] at h; cases h

theorem tailPieces_even : ∀ (gs : List (List Nat)) (rb : List Nat), tailPieces gs = some rb → rb.length % 2 = 0
  | [], rb, h => by
    have : rb = [] := by simpa [tailPieces] using h.symm
    subst this; rfl
  | [g], rb, h => by
    rw [tailPieces_single] at h
    by_cases hok : hexGroupOK g = true
    · rw [if_pos hok] at h
      simp only [Option.some.injEq] at h
      rw [← h, groupBytes_len]
    · rw [if_neg hok] at h
      rw [parse4_len h]
  | g :: g' :: gs, rb, h => by
    rw [tailPieces_cons2] at h
    by_cases hok : hexGroupOK g = true
    · rw [if_pos hok] at h
      cases hp : tailPieces (g' :: gs) with
      | none => rw [hp] at h; cases h
      | some rb0 =>
        rw [hp] at h
        simp only [Option.map_some, Option.some.injEq] at h
        have := tailPieces_even (g' :: gs) rb0 hp
        rw [← h, List.length_append, groupBytes_len]; omega
    · rw [if_neg hok] at h; cases h

theorem fin_none (bs : List Nat) : fin bs none = if bs.length = 16 then some bs else none := by
  unfold fin V6.pton6Finish
  by_cases h : bs.length = 16
  · simp [h]
  · simp [h]

theorem fin_some (lb rb : List Nat) :
    fin (lb ++ rb) (some lb.length) =
      if lb.length + rb.length = 16 then none
      else some (lb ++ List.replicate (16 - (lb.length + rb.length)) 0 ++ rb) := by
  unfold fin V6.pton6Finish
  by_cases h : lb.length + rb.length = 16
  · simp [h]
  · simp [h]

theorem parse6_eq_specD (s : List Nat) : parse6 s = specD [] s := by
  unfold parse6 specD
  cases hf : findDc s with
  | none =>
    simp only
    unfold tailFin
    cases tailPieces (pieces s) with
    | none => rfl
    | some bs =>
      simp only [List.length_nil, Nat.zero_add, List.nil_append, fin_none]
      by_cases h : bs.length = 16
      · rw [if_pos h, if_pos (by omega)]
      · rw [if_neg h]
        by_cases h2 : bs.length ≤ 16
        · rw [if_pos h2]
        · rw [if_neg h2]
  | some p =>
    obtain ⟨l, r⟩ := p
    simp only
    cases hl : hexPieces (pieces l) with
    | none => rfl
    | some lb =>
      unfold tailFin
      cases hr : tailPieces (pieces r) with
      | none =>
        simp only [List.length_nil, Nat.zero_add]
        by_cases h : lb.length ≤ 16
        · rw [if_pos h]
        · rw [if_neg h]
      | some rb =>
        have e1 := hexPieces_even _ _ hl
        have e2 := tailPieces_even _ _ hr
        simp only [List.length_nil, Nat.zero_add, List.nil_append, fin_some]
        by_cases h : lb.length + rb.length ≤ 14
        · rw [if_pos h, if_pos (by omega), if_pos (by omega), if_neg (by omega)]
        · rw [if_neg h]
          by_cases h1 : lb.length ≤ 16
          · rw [if_pos h1]
            by_cases h2 : lb.length + rb.length ≤ 16
            · rw [if_pos h2, if_pos (by omega)]
            · rw [if_neg h2]
          · rw [if_neg h1]

theorem hexGroupOK_nil : hexGroupOK [] = false := rfl

/-- **pton6_accept_iff**: the `inet_pton(AF_INET6)` state machine accepts exactly the texts of the RFC 4291 grammar
    and computes the same 16 bytes -/
theorem pton6_eq_spec (s : List Nat) : V6.pton6 s = Spec.parse6 s := by
  rw [parse6_eq_specD]
  cases s with
  | nil => rfl
  | cons c rest =>
    by_cases hc : c = 58
    · subst hc
      cases rest with
      | nil => rfl
      | cons c' r =>
        by_cases hc' : c' = 58
        · subst hc'
          have hm : V6.pton6 (58 :: 58 :: r) = V6.pton6Loop (58 :: r) (58 :: r) 0 0 [] none := by
            simp [V6.pton6]
          have hk := tok_colon [] (by simp) r [] none
          rw [List.nil_append] at hk
          rw [hm, hk]
          simp only [if_true, Option.isSome_none, Bool.false_eq_true, if_false, List.length_nil]
          rw [loop_some r.length r (Nat.le_refl _) [] 0 (by simp)]
          have hd := findDc_dc r [] (by simp)
          rw [List.nil_append] at hd
          rw [specD_some hd]
          rfl
        · have hm : V6.pton6 (58 :: c' :: r) = none := by simp [V6.pton6, hc']
          rw [hm]
          cases hf : findDc (c' :: r) with
          | none =>
            rw [specD_none (findDc_cons_none' 58 c' hc' r hf)]
            have := tailFin_colon [] (by simp) (c' :: r) [] none
            rw [List.nil_append] at this
            rw [this, hexGroupOK_nil]; rfl
          | some p =>
            obtain ⟨l, r'⟩ := p
            rw [specD_some (findDc_cons_some' 58 c' hc' r l r' hf)]
            have := pieces_colon [] (by simp) l
            rw [List.nil_append] at this
            rw [this, hexPieces_cons, hexGroupOK_nil]; rfl
    · have hm : V6.pton6 (c :: rest) = V6.pton6Loop (c :: rest) (c :: rest) 0 0 [] none := by
        simp [V6.pton6, hc]
      rw [hm]
      exact loop_none _ (c :: rest) (Nat.le_refl _) (fun x e => hc (List.cons.inj e).1) [] (by simp)

end Tins.Addr
