import TinsModel.Address.LemmasV4Grammar
/- `inet_ntop(AF_INET6)` reference model (V6.ntop6) produces exactly the RFC 5952 canonical text (Spec.fmt6), for every
   16-byte address; the text has at most 39 characters, so `IPv6Address::to_string` never throws. -/
namespace Tins.Addr
open Spec

/-! ### hex numerals -/

theorem hexChar_eq_lowerHex (v : Nat) : V6.hexChar v = lowerHex v := rfl

theorem fmtHex_eq_hexNumeral (w : Nat) (h : w < 65536) : V6.fmtHex w = hexNumeral w := by
  unfold V6.fmtHex hexNumeral
  simp only [hexChar_eq_lowerHex]
  by_cases h1 : w < 16
  · have a1 : w / 4096 % 16 = 0 := by omega
    have a2 : w / 256 % 16 = 0 := by omega
    have a3 : w / 16 % 16 = 0 := by omega
    have a4 : w % 16 = w := by omega
    by_cases h0 : w = 0
    · subst h0; simp [List.dropWhile]
    · have b0 : (w == 0) = false := by simp [h0]
      simp [List.dropWhile, a1, a2, a3, a4, b0, h1]
  · by_cases h2 : w < 256
    · have a1 : w / 4096 % 16 = 0 := by omega
      have a2 : w / 256 % 16 = 0 := by omega
      have a3 : w / 16 % 16 = w / 16 := by omega
      have a4 : (w / 16 == 0) = false := by simp; omega
      simp [List.dropWhile, a1, a2, a3, a4, h1, h2]
    · by_cases h3 : w < 4096
      · have a1 : w / 4096 % 16 = 0 := by omega
        have a2 : w / 256 % 16 = w / 256 := by omega
        have a4 : (w / 256 == 0) = false := by simp; omega
        simp [List.dropWhile, a1, a2, a4, h1, h2, h3]
      · have a4 : (w / 4096 % 16 == 0) = false := by simp; omega
        simp [List.dropWhile, a4, h1, h2, h3]

theorem hexNumeral_length_le (w : Nat) : (hexNumeral w).length ≤ 4 := by
  unfold hexNumeral
  simp only [List.length_map]
  split
  · simp
  · exact Nat.le_trans (List.dropWhile_sublist _).length_le (by simp)

/-! ### dotted quad -/

set_option maxRecDepth 100000 in
theorem decOctet_eq_decimal : ∀ n, n < 256 → V4.decOctet n = Spec.decimal n := by decide

theorem decOctet_length_le (n : Nat) : (V4.decOctet n).length ≤ 3 := by
  unfold V4.decOctet; split
  · simp
  · split <;> simp

theorem ntop4_eq_fmt4 (a b c d : Nat) (ha : a < 256) (hb : b < 256) (hc : c < 256) (hd : d < 256) :
    V6.ntop4 [a, b, c, d] = fmt4 [a, b, c, d] := by
  simp [V6.ntop4, fmt4, intercalate, decOctet_eq_decimal, ha, hb, hc, hd]

theorem ntop4_length_le (a b c d : Nat) : (V6.ntop4 [a, b, c, d]).length ≤ 15 := by
  have h1 := decOctet_length_le a
  have h2 := decOctet_length_le b
  have h3 := decOctet_length_le c
  have h4 := decOctet_length_le d
  simp [V6.ntop4]; omega

/-! ### run selection depends only on the zero pattern of the groups -/

def scanP : List Bool → Nat → Option (Nat × Nat) → Option (Nat × Nat) → Option (Nat × Nat)
  | [], _, best, cur =>
    let best := match cur with | some c => V6.pick best c | none => best
    match best with
    | some b => if b.2 < 2 then none else some b
    | none => none
  | p :: ps, i, best, cur =>
    if p then
      match cur with
      | none => scanP ps (i + 1) best (some (i, 1))
      | some (b, l) => scanP ps (i + 1) best (some (b, l + 1))
    else
      match cur with
      | some c => scanP ps (i + 1) (V6.pick best c) none
      | none => scanP ps (i + 1) best none

theorem scanRuns_eq_scanP (ws : List Nat) : ∀ i best cur,
    V6.scanRuns ws i best cur = scanP (ws.map (fun w => w == 0)) i best cur := by
  induction ws with
  | nil => intro i best cur; rfl
  | cons w ws ih =>
    intro i best cur
    by_cases hw : w = 0
    · subst hw
      cases cur with
      | none => simp [V6.scanRuns, scanP, ih]
      | some c => obtain ⟨b, l⟩ := c; simp [V6.scanRuns, scanP, ih]
    · cases cur with
      | none => simp [V6.scanRuns, scanP, ih, hw]
      | some c => simp [V6.scanRuns, scanP, ih, hw]

def zeroRunP (ps : List Bool) (i l : Nat) : Bool := decide (i + l ≤ ps.length) && ((ps.drop i).take l).all id

def bestRunP (ps : List Bool) : Option (Nat × Nat) :=
  let cands := (List.range 8).flatMap (fun i =>
    (List.range 9).filterMap (fun l => if 2 ≤ l ∧ zeroRunP ps i l = true then some (i, l) else none))
  cands.foldl (fun best c => match best with
    | none => some c
    | some b => if c.2 > b.2 then some c else some b) none

theorem zeroRun_eq_zeroRunP (gs : List Nat) (i l : Nat) :
    zeroRun gs i l = zeroRunP (gs.map (fun w => w == 0)) i l := by
  simp [zeroRun, zeroRunP, ← List.map_drop, ← List.map_take, List.all_map]

theorem bestRun_eq_bestRunP (gs : List Nat) : bestRun gs = bestRunP (gs.map (fun w => w == 0)) := by
  simp only [bestRun, bestRunP, zeroRun_eq_zeroRunP]
  rfl

/-! ### complete enumeration of the 256 zero patterns -/

set_option maxRecDepth 100000 in
theorem scanP_eq_bestRunP_t : ∀ p1 p2 p3 p4 p5 p6 p7 : Bool,
    scanP [true, p1, p2, p3, p4, p5, p6, p7] 0 none none = bestRunP [true, p1, p2, p3, p4, p5, p6, p7] := by
  decide

set_option maxRecDepth 100000 in
theorem scanP_eq_bestRunP_f : ∀ p1 p2 p3 p4 p5 p6 p7 : Bool,
    scanP [false, p1, p2, p3, p4, p5, p6, p7] 0 none none = bestRunP [false, p1, p2, p3, p4, p5, p6, p7] := by
  decide

theorem scanP_eq_bestRunP (p0 p1 p2 p3 p4 p5 p6 p7 : Bool) :
    scanP [p0, p1, p2, p3, p4, p5, p6, p7] 0 none none = bestRunP [p0, p1, p2, p3, p4, p5, p6, p7] := by
  cases p0
  · exact scanP_eq_bestRunP_f ..
  · exact scanP_eq_bestRunP_t ..

/-- what the enumeration establishes about the selected run: it lies inside the eight groups, has at least two groups,
    and it is `(0,5)` / `(0,6)` exactly for the patterns `00000x..` / `000000x.` (x ≠ 0) -/
def runOK (p0 p1 p2 p3 p4 p5 p6 : Bool) (r : Option (Nat × Nat)) : Bool :=
  match r with
  | none =>
    decide (¬ (p0 = true ∧ p1 = true ∧ p2 = true ∧ p3 = true ∧ p4 = true ∧ p5 = false)) &&
    decide (¬ (p0 = true ∧ p1 = true ∧ p2 = true ∧ p3 = true ∧ p4 = true ∧ p5 = true ∧ p6 = false))
  | some (i, l) =>
    decide (i + l ≤ 8) && decide (2 ≤ l) &&
    (decide (i = 0 ∧ l = 5) == decide (p0 = true ∧ p1 = true ∧ p2 = true ∧ p3 = true ∧ p4 = true ∧ p5 = false)) &&
    (decide (i = 0 ∧ l = 6) ==
      decide (p0 = true ∧ p1 = true ∧ p2 = true ∧ p3 = true ∧ p4 = true ∧ p5 = true ∧ p6 = false))

theorem runOK_none {p0 p1 p2 p3 p4 p5 p6 : Bool} (h : runOK p0 p1 p2 p3 p4 p5 p6 none = true) :
    ¬ (p0 = true ∧ p1 = true ∧ p2 = true ∧ p3 = true ∧ p4 = true ∧ p5 = false) ∧
    ¬ (p0 = true ∧ p1 = true ∧ p2 = true ∧ p3 = true ∧ p4 = true ∧ p5 = true ∧ p6 = false) := by
  simpa only [runOK, Bool.and_eq_true, decide_eq_true_eq] using h

theorem runOK_some {p0 p1 p2 p3 p4 p5 p6 : Bool} {i l : Nat} (h : runOK p0 p1 p2 p3 p4 p5 p6 (some (i, l)) = true) :
    i + l ≤ 8 ∧ 2 ≤ l ∧
    ((i = 0 ∧ l = 5) ↔ (p0 = true ∧ p1 = true ∧ p2 = true ∧ p3 = true ∧ p4 = true ∧ p5 = false)) ∧
    ((i = 0 ∧ l = 6) ↔ (p0 = true ∧ p1 = true ∧ p2 = true ∧ p3 = true ∧ p4 = true ∧ p5 = true ∧ p6 = false)) := by
  simp only [runOK, Bool.and_eq_true, decide_eq_true_eq, beq_iff_eq, decide_eq_decide] at h
  exact ⟨h.1.1.1, h.1.1.2, h.1.2, h.2⟩

set_option maxRecDepth 100000 in
theorem scanP_runOK : ∀ p0 p1 p2 p3 p4 p5 p6 p7 : Bool,
    runOK p0 p1 p2 p3 p4 p5 p6 (scanP [p0, p1, p2, p3, p4, p5, p6, p7] 0 none none) = true := by
  decide

/-! ### the two texts with the selected run as a parameter -/

/-- `V6.ntop6` after the run-finding loop -/
def ntop6R (src ws : List Nat) (best : Option (Nat × Nat)) : List Nat :=
  let out := V6.fmtLoop src best (ws.getD 5 0) ws 0 []
  match best with
  | some (b, l) => if b + l = 8 then out ++ [58] else out
  | none => out

/-- `Spec.fmt6` after the choice of the run -/
def fmt6R (src gs : List Nat) (best : Option (Nat × Nat)) : List Nat :=
  match mixedPrefix gs with
  | some p => p ++ fmt4 (src.drop 12)
  | none =>
    match best with
    | none => intercalate 58 (gs.map hexNumeral)
    | some (i, l) =>
      intercalate 58 ((gs.take i).map hexNumeral) ++ [58, 58] ++ intercalate 58 ((gs.drop (i + l)).map hexNumeral)

theorem ntop6_eq_ntop6R (a : List Nat) : V6.ntop6 a = ntop6R a (V6.words a) (V6.scanRuns (V6.words a) 0 none none) := rfl
theorem fmt6_eq_fmt6R (a : List Nat) : fmt6 a = fmt6R a (groups6 a) (bestRun (groups6 a)) := rfl

theorem words_eq_groups6 (a : List Nat) : V6.words a = groups6 a := by
  fun_induction V6.words a with
  | case1 b0 b1 r ih => simp [groups6, ih]
  | case2 a h =>
    unfold groups6
    split
    · exact absurd rfl (h _ _ _)
    · rfl

section mixed
variable (src : List Nat) (w0 w1 w2 w3 w4 w5 w6 w7 : Nat) (hq : V6.ntop4 (src.drop 12) = fmt4 (src.drop 12))
include hq

/-- IPv4-mapped: `::ffff:a.b.c.d` -/
theorem core_mapped (h : w0 = 0 ∧ w1 = 0 ∧ w2 = 0 ∧ w3 = 0 ∧ w4 = 0 ∧ w5 = 65535) :
    ntop6R src [w0, w1, w2, w3, w4, w5, w6, w7] (some (0, 5)) = fmt6R src [w0, w1, w2, w3, w4, w5, w6, w7] (some (0, 5)) := by
  obtain ⟨rfl, rfl, rfl, rfl, rfl, rfl⟩ := h
  simp [ntop6R, fmt6R, mixedPrefix, V6.fmtLoop, V6.inBest, V6.isEncapsulatedV4, hq, V6.fmtHex, V6.hexChar]

/-- IPv4-compatible: `::a.b.c.d` -/
theorem core_compat (h : w0 = 0 ∧ w1 = 0 ∧ w2 = 0 ∧ w3 = 0 ∧ w4 = 0 ∧ w5 = 0 ∧ w6 ≠ 0) :
    ntop6R src [w0, w1, w2, w3, w4, w5, w6, w7] (some (0, 6)) = fmt6R src [w0, w1, w2, w3, w4, w5, w6, w7] (some (0, 6)) := by
  obtain ⟨rfl, rfl, rfl, rfl, rfl, rfl, h6⟩ := h
  simp [ntop6R, fmt6R, mixedPrefix, V6.fmtLoop, V6.inBest, V6.isEncapsulatedV4, hq, h6]

end mixed

theorem mixedPrefix_none (w0 w1 w2 w3 w4 w5 w6 w7 : Nat)
    (hA : ¬ (w0 = 0 ∧ w1 = 0 ∧ w2 = 0 ∧ w3 = 0 ∧ w4 = 0 ∧ w5 = 65535))
    (hB : ¬ (w0 = 0 ∧ w1 = 0 ∧ w2 = 0 ∧ w3 = 0 ∧ w4 = 0 ∧ w5 = 0 ∧ w6 ≠ 0)) :
    mixedPrefix [w0, w1, w2, w3, w4, w5, w6, w7] = none := by
  unfold mixedPrefix
  rw [if_neg, if_neg]
  · simp; intro h0 h1 h2 h3 h4 h5; exact Classical.byContradiction fun h6 => hB ⟨h0, h1, h2, h3, h4, h5, h6⟩
  · simp; intro h0 h1 h2 h3 h4 h5; exact hA ⟨h0, h1, h2, h3, h4, h5⟩

section hexcases
variable (src : List Nat) (w0 w1 w2 w3 w4 w5 w6 w7 : Nat)
  (hx0 : V6.fmtHex w0 = hexNumeral w0) (hx1 : V6.fmtHex w1 = hexNumeral w1)
  (hx2 : V6.fmtHex w2 = hexNumeral w2) (hx3 : V6.fmtHex w3 = hexNumeral w3)
  (hx4 : V6.fmtHex w4 = hexNumeral w4) (hx5 : V6.fmtHex w5 = hexNumeral w5)
  (hx6 : V6.fmtHex w6 = hexNumeral w6) (hx7 : V6.fmtHex w7 = hexNumeral w7)
  (hmp : mixedPrefix [w0, w1, w2, w3, w4, w5, w6, w7] = none)
include hx0 hx1 hx2 hx3 hx4 hx5 hx6 hx7 hmp
set_option linter.unusedSectionVars false
set_option linter.unusedSimpArgs false

theorem core_none :
    ntop6R src [w0, w1, w2, w3, w4, w5, w6, w7] none = fmt6R src [w0, w1, w2, w3, w4, w5, w6, w7] none := by
  simp [ntop6R, fmt6R, hmp, V6.fmtLoop, V6.inBest, V6.isEncapsulatedV4, intercalate, hx0, hx1, hx2, hx3, hx4, hx5, hx6, hx7]

theorem core_run0 (l : Nat) (hl : 2 ≤ l ∧ l ≤ 8) (h06 : l ≠ 6) (h05 : l = 5 → w5 ≠ 65535) :
    ntop6R src [w0, w1, w2, w3, w4, w5, w6, w7] (some (0, l)) = fmt6R src [w0, w1, w2, w3, w4, w5, w6, w7] (some (0, l)) := by
  have : l = 2 ∨ l = 3 ∨ l = 4 ∨ l = 5 ∨ l = 7 ∨ l = 8 := by omega
  rcases this with rfl | rfl | rfl | rfl | rfl | rfl <;>
    simp [ntop6R, fmt6R, hmp, V6.fmtLoop, V6.inBest, V6.isEncapsulatedV4, intercalate, hx0, hx1, hx2, hx3, hx4, hx5, hx6, hx7, h05]

theorem core_runpos (i l : Nat) (hi : 1 ≤ i) (hl : 2 ≤ l) (hil : i + l ≤ 8) :
    ntop6R src [w0, w1, w2, w3, w4, w5, w6, w7] (some (i, l)) = fmt6R src [w0, w1, w2, w3, w4, w5, w6, w7] (some (i, l)) := by
  have h1 : i = 1 ∨ i = 2 ∨ i = 3 ∨ i = 4 ∨ i = 5 ∨ i = 6 := by omega
  have h2 : l = 2 ∨ l = 3 ∨ l = 4 ∨ l = 5 ∨ l = 6 ∨ l = 7 := by omega
  rcases h1 with rfl | rfl | rfl | rfl | rfl | rfl <;>
  rcases h2 with rfl | rfl | rfl | rfl | rfl | rfl <;>
  first
  | omega
  | simp [ntop6R, fmt6R, hmp, V6.fmtLoop, V6.inBest, V6.isEncapsulatedV4, intercalate, hx0, hx1, hx2, hx3, hx4, hx5, hx6, hx7]

end hexcases

/-- the two texts agree for every run that satisfies what the enumeration establishes -/
theorem core (src : List Nat) (w0 w1 w2 w3 w4 w5 w6 w7 : Nat) (r : Option (Nat × Nat))
    (hx0 : V6.fmtHex w0 = hexNumeral w0) (hx1 : V6.fmtHex w1 = hexNumeral w1)
    (hx2 : V6.fmtHex w2 = hexNumeral w2) (hx3 : V6.fmtHex w3 = hexNumeral w3)
    (hx4 : V6.fmtHex w4 = hexNumeral w4) (hx5 : V6.fmtHex w5 = hexNumeral w5)
    (hx6 : V6.fmtHex w6 = hexNumeral w6) (hx7 : V6.fmtHex w7 = hexNumeral w7)
    (hq : V6.ntop4 (src.drop 12) = fmt4 (src.drop 12))
    (hok : runOK (w0 == 0) (w1 == 0) (w2 == 0) (w3 == 0) (w4 == 0) (w5 == 0) (w6 == 0) r = true) :
    ntop6R src [w0, w1, w2, w3, w4, w5, w6, w7] r = fmt6R src [w0, w1, w2, w3, w4, w5, w6, w7] r := by
  cases r with
  | none =>
    have h := runOK_none hok
    simp only [beq_iff_eq, beq_eq_false_iff_ne] at h
    apply core_none <;> try assumption
    apply mixedPrefix_none
    · intro hA; apply h.1; obtain ⟨h0, h1, h2, h3, h4, h5⟩ := hA; exact ⟨h0, h1, h2, h3, h4, by omega⟩
    · intro hB; exact h.2 hB
  | some c =>
    obtain ⟨i, l⟩ := c
    obtain ⟨hil, hl, h5, h6⟩ := runOK_some hok
    simp only [beq_iff_eq, beq_eq_false_iff_ne] at h5 h6
    by_cases hA : w0 = 0 ∧ w1 = 0 ∧ w2 = 0 ∧ w3 = 0 ∧ w4 = 0 ∧ w5 = 65535
    · have : i = 0 ∧ l = 5 := by
        rw [h5]; obtain ⟨h0, h1, h2, h3, h4, h5'⟩ := hA; exact ⟨h0, h1, h2, h3, h4, by omega⟩
      obtain ⟨rfl, rfl⟩ := this
      exact core_mapped src w0 w1 w2 w3 w4 w5 w6 w7 hq hA
    · by_cases hB : w0 = 0 ∧ w1 = 0 ∧ w2 = 0 ∧ w3 = 0 ∧ w4 = 0 ∧ w5 = 0 ∧ w6 ≠ 0
      · obtain ⟨rfl, rfl⟩ := h6.2 hB
        exact core_compat src w0 w1 w2 w3 w4 w5 w6 w7 hq hB
      · have hmp := mixedPrefix_none w0 w1 w2 w3 w4 w5 w6 w7 hA hB
        by_cases hi : i = 0
        · subst hi
          apply core_run0 <;> try assumption
          · omega
          · intro h; exact hB (h6.1 ⟨rfl, h⟩)
          · intro h h'
            obtain ⟨h0, h1, h2, h3, h4, _⟩ := h5.1 ⟨rfl, h⟩
            exact hA ⟨h0, h1, h2, h3, h4, h'⟩
        · apply core_runpos <;> first | assumption | omega

theorem words16 (b0 b1 b2 b3 b4 b5 b6 b7 b8 b9 b10 b11 b12 b13 b14 b15 : Nat) :
    V6.words [b0, b1, b2, b3, b4, b5, b6, b7, b8, b9, b10, b11, b12, b13, b14, b15] =
      [b0 * 256 + b1, b2 * 256 + b3, b4 * 256 + b5, b6 * 256 + b7, b8 * 256 + b9, b10 * 256 + b11,
       b12 * 256 + b13, b14 * 256 + b15] := rfl

theorem list16 (a : List Nat) (h : a.length = 16) :
    ∃ b0 b1 b2 b3 b4 b5 b6 b7 b8 b9 b10 b11 b12 b13 b14 b15,
      a = [b0, b1, b2, b3, b4, b5, b6, b7, b8, b9, b10, b11, b12, b13, b14, b15] := by
  match a, h with
  | [b0, b1, b2, b3, b4, b5, b6, b7, b8, b9, b10, b11, b12, b13, b14, b15], _ =>
    exact ⟨b0, b1, b2, b3, b4, b5, b6, b7, b8, b9, b10, b11, b12, b13, b14, b15, rfl⟩

/-- `inet_ntop6`'s output is the RFC 5952 canonical text -/
theorem ntop6_eq_spec (a : List Nat) (h : WFB 16 a) : V6.ntop6 a = Spec.fmt6 a := by
  obtain ⟨b0, b1, b2, b3, b4, b5, b6, b7, b8, b9, b10, b11, b12, b13, b14, b15, rfl⟩ := list16 a h.1
  have hb := h.2
  simp only [List.mem_cons, List.not_mem_nil, or_false, forall_eq_or_imp, forall_eq] at hb
  obtain ⟨h0, h1, h2, h3, h4, h5, h6, h7, h8, h9, h10, h11, h12, h13, h14, h15⟩ := hb
  rw [ntop6_eq_ntop6R, fmt6_eq_fmt6R, ← words_eq_groups6, bestRun_eq_bestRunP, scanRuns_eq_scanP, words16]
  simp only [List.map_cons, List.map_nil]
  rw [← scanP_eq_bestRunP]
  apply core
  · exact fmtHex_eq_hexNumeral _ (by omega)
  · exact fmtHex_eq_hexNumeral _ (by omega)
  · exact fmtHex_eq_hexNumeral _ (by omega)
  · exact fmtHex_eq_hexNumeral _ (by omega)
  · exact fmtHex_eq_hexNumeral _ (by omega)
  · exact fmtHex_eq_hexNumeral _ (by omega)
  · exact fmtHex_eq_hexNumeral _ (by omega)
  · exact fmtHex_eq_hexNumeral _ (by omega)
  · exact ntop4_eq_fmt4 b12 b13 b14 b15 h12 h13 h14 h15
  · exact scanP_runOK ..

/-! ### length -/

theorem intercalate_length_le (sep : Nat) (gs : List (List Nat)) (h : ∀ g ∈ gs, g.length ≤ 4) :
    (intercalate sep gs).length ≤ 5 * gs.length - 1 := by
  fun_induction intercalate sep gs with
  | case1 => simp
  | case2 g => simpa using h
  | case3 g gs hne ih =>
    have hg := h g (by simp)
    have := ih (fun g' hg' => h g' (by simp [hg']))
    have hpos : 0 < gs.length := by
      cases gs with
      | nil => exact (hne rfl).elim
      | cons _ _ => simp
    simp only [List.length_append, List.length_cons]
    omega

theorem hexGroups_length_le (gs : List Nat) : (intercalate 58 (gs.map hexNumeral)).length ≤ 5 * gs.length - 1 := by
  have := intercalate_length_le 58 (gs.map hexNumeral) (by
    intro g hg
    obtain ⟨w, _, rfl⟩ := List.mem_map.1 hg
    exact hexNumeral_length_le w)
  simpa using this

theorem mixedPrefix_length_le (gs p : List Nat) (h : mixedPrefix gs = some p) : p.length ≤ 7 := by
  unfold mixedPrefix at h
  split at h
  · cases h; simp
  · split at h
    · cases h; simp
    · cases h

theorem fmt6R_length_le (src gs : List Nat) (r : Option (Nat × Nat)) (hgs : gs.length = 8)
    (hq : (fmt4 (src.drop 12)).length ≤ 15) (hr : ∀ i l, r = some (i, l) → 1 ≤ l ∧ i + l ≤ 8) :
    (fmt6R src gs r).length ≤ 39 := by
  unfold fmt6R
  split
  · next p hp =>
    have := mixedPrefix_length_le gs p hp
    simp only [List.length_append]; omega
  · split
    · have := hexGroups_length_le gs
      omega
    · next i l =>
      have h1 := hexGroups_length_le (gs.take i)
      have h2 := hexGroups_length_le (gs.drop (i + l))
      have := hr i l rfl
      simp only [List.length_take, List.length_drop, hgs] at h1 h2
      simp only [List.length_append, List.length_cons, List.length_nil]
      omega

/-- the text never exceeds 39 characters, so the size check of `inet_ntop` with a 46-byte buffer never fires -/
theorem ntop6_length_le (a : List Nat) (h : WFB 16 a) : (V6.ntop6 a).length ≤ 39 := by
  rw [ntop6_eq_spec a h]
  obtain ⟨b0, b1, b2, b3, b4, b5, b6, b7, b8, b9, b10, b11, b12, b13, b14, b15, rfl⟩ := list16 a h.1
  have hb := h.2
  simp only [List.mem_cons, List.not_mem_nil, or_false, forall_eq_or_imp, forall_eq] at hb
  obtain ⟨h0, h1, h2, h3, h4, h5, h6, h7, h8, h9, h10, h11, h12, h13, h14, h15⟩ := hb
  rw [fmt6_eq_fmt6R]
  apply fmt6R_length_le
  · rfl
  · show (fmt4 [b12, b13, b14, b15]).length ≤ 15
    rw [← ntop4_eq_fmt4 b12 b13 b14 b15 h12 h13 h14 h15]
    exact ntop4_length_le ..
  · intro i l hr
    rw [← words_eq_groups6, bestRun_eq_bestRunP, words16] at hr
    simp only [List.map_cons, List.map_nil] at hr
    rw [← scanP_eq_bestRunP] at hr
    have hok := scanP_runOK (b0 * 256 + b1 == 0) (b2 * 256 + b3 == 0) (b4 * 256 + b5 == 0) (b6 * 256 + b7 == 0)
      (b8 * 256 + b9 == 0) (b10 * 256 + b11 == 0) (b12 * 256 + b13 == 0) (b14 * 256 + b15 == 0)
    rw [hr] at hok
    have := runOK_some hok
    omega

theorem toString_some (a : List Nat) (h : WFB 16 a) : V6.toString a = some (V6.ntop6 a) := by
  have := ntop6_length_le a h
  unfold V6.toString V6.toStringSized
  simp only []
  rw [if_neg (by omega)]

end Tins.Addr
