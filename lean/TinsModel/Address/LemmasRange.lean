import TinsModel.Address.Model
import TinsModel.Address.Spec
/-
  Generic theory of `AddressRange<Address>` / `AddressRangeIterator<Address>`: everything the templates do is derived
  from the laws `Lawful` of the functions they call (numeric reading `v` of an address, modulus `M` = number of
  addresses).  The laws are proved for IPv4 in LemmasV4.lean and for byte buffers (IPv6 / HW) in LemmasBuf.lean.
-/
namespace Tins.Addr

/-- laws of the operations used by the range templates, w.r.t. a numeric reading `v` into `[0, M)` -/
structure Lawful {A : Type} (o : Ops A) (wf : A → Prop) (v : A → Nat) (M : Nat) : Prop where
  v_lt : ∀ a, wf a → v a < M
  v_inj : ∀ a b, wf a → wf b → v a = v b → a = b
  inc_wf : ∀ a, wf a → wf (o.inc a).1
  inc_v : ∀ a, wf a → v (o.inc a).1 = (v a + 1) % M
  inc_flag : ∀ a, wf a → ((o.inc a).2 = true ↔ v a + 1 = M)
  dec_wf : ∀ a, wf a → wf (o.dec a).1
  dec_v : ∀ a, wf a → v (o.dec a).1 = (v a + M - 1) % M
  lt_iff : ∀ a b, wf a → wf b → (o.lt a b = true ↔ v a < v b)
  eq_iff : ∀ a b, wf a → wf b → (o.eq a b = true ↔ v a = v b)

variable {A : Type} {o : Ops A} {wf : A → Prop} {v : A → Nat} {M : Nat}

/-- a range as the constructor leaves it: both ends are addresses and `¬ last < first` -/
structure Range.Valid (wf : A → Prop) (v : A → Nat) (r : Range A) : Prop where
  wf_first : wf r.first
  wf_last : wf r.last
  ordered : v r.first ≤ v r.last

theorem Range.make_valid (L : Lawful o wf v M) {a b : A} {oh : Bool} {r : Range A} (ha : wf a) (hb : wf b)
    (h : Range.make o a b oh = some r) : r = ⟨a, b, oh⟩ ∧ r.Valid wf v := by
  unfold Range.make at h
  split at h
  · cases h
  · rename_i hlt
    cases h
    refine ⟨rfl, ha, hb, ?_⟩
    have : ¬ v b < v a := fun h => hlt ((L.lt_iff b a hb ha).mpr h)
    exact Nat.le_of_not_lt this

theorem Range.make_none_iff (L : Lawful o wf v M) {a b : A} {oh : Bool} (ha : wf a) (hb : wf b) :
    Range.make o a b oh = none ↔ v b < v a := by
  unfold Range.make
  have := L.lt_iff b a hb ha
  split <;> simp_all

/-! ### contains -/

theorem contains_iff (L : Lawful o wf v M) (r : Range A) (hr : r.Valid wf v) (x : A) (hx : wf x) :
    r.contains o x = true ↔ (v r.first ≤ v x ∧ v x ≤ v r.last) := by
  have h1 := L.lt_iff r.first x hr.wf_first hx
  have h2 := L.lt_iff x r.last hx hr.wf_last
  have h3 := L.eq_iff x r.first hx hr.wf_first
  have h4 := L.eq_iff x r.last hx hr.wf_last
  have h5 := hr.ordered
  unfold Range.contains
  simp only [Bool.or_eq_true, Bool.and_eq_true, h1, h2, h3, h4]
  omega

/-! ### is_iterable -/

theorem iterableLoop_iff (L : Lawful o wf v M) (last : A) (hl : wf last) :
    ∀ (k : Nat) (a : A), wf a → v a ≤ v last → (iterableLoop o last k a = true ↔ v a + k ≤ v last) := by
  intro k
  induction k with
  | zero => intro a _ h; simp [iterableLoop, h]
  | succ k ih =>
    intro a ha hle
    have heq := L.eq_iff a last ha hl
    have hlM := L.v_lt last hl
    unfold iterableLoop
    by_cases h : o.eq a last = true
    · simp only [h, if_true]
      have := heq.mp h
      constructor
      · intro hf; cases hf
      · intro; omega
    · simp only [h]
      have hne : v a ≠ v last := fun e => h (heq.mpr e)
      have hlt : v a < v last := by omega
      have hv : v (o.inc a).1 = v a + 1 := by
        rw [L.inc_v a ha]; exact Nat.mod_eq_of_lt (by omega)
      have := ih (o.inc a).1 (L.inc_wf a ha) (by omega)
      simp only [Bool.false_eq_true, if_false]
      rw [this, hv]; omega

/-- host-only ranges are iterable exactly when they hold at least four addresses; all others always -/
theorem isIterable_iff (L : Lawful o wf v M) (r : Range A) (hr : r.Valid wf v) :
    r.isIterable o = true ↔ (r.onlyHosts = false ∨ v r.first + 3 ≤ v r.last) := by
  unfold Range.isIterable
  cases h : r.onlyHosts
  · simp
  · simp only [Bool.not_true, Bool.false_eq_true, if_false]
    have := iterableLoop_iff L r.last hr.wf_last 3 r.first hr.wf_first hr.ordered
    simpa using this

/-! ### iteration -/

/-- abstract position of an iterator: a number in `[0, M]`; `M` itself is "one past the all-ones address" -/
structure Pos (wf : A → Prop) (v : A → Nat) (M : Nat) (it : Iter A) (p : Nat) : Prop where
  wf : wf it.addr
  val : v it.addr = p % M
  flag : it.reachedEnd = true ↔ p = M
  le : p ≤ M

theorem Pos.eq_iff (L : Lawful o wf v M) {it e : Iter A} {p q : Nat} (hp : Pos wf v M it p) (hq : Pos wf v M e q)
    (hpq : p ≤ q) : Iter.eq o it e = true ↔ p = q := by
  have he := L.eq_iff it.addr e.addr hp.wf hq.wf
  have h1 := hp.val; have h2 := hq.val
  have f1 := hp.flag; have f2 := hq.flag
  have l2 := hq.le
  have vlt := L.v_lt it.addr hp.wf
  unfold Iter.eq
  simp only [Bool.and_eq_true, beq_iff_eq, he]
  constructor
  · rintro ⟨hf, hv⟩
    by_cases hqM : q = M
    · have : it.reachedEnd = true := by rw [hf]; exact f2.mpr hqM
      have := f1.mp this; omega
    · have hq' : q < M := by omega
      have hp' : p < M := by omega
      rw [h1, h2, Nat.mod_eq_of_lt hp', Nat.mod_eq_of_lt hq'] at hv
      exact hv
  · intro h; subst h
    refine ⟨?_, by rw [h1, h2]⟩
    cases ha : it.reachedEnd <;> cases hb : e.reachedEnd <;> simp_all

theorem Pos.next (L : Lawful o wf v M) {it : Iter A} {p : Nat} (hp : Pos wf v M it p) (hlt : p < M) :
    Pos wf v M (Iter.next o it) (p + 1) := by
  have hv : v it.addr = p := by rw [hp.val]; exact Nat.mod_eq_of_lt hlt
  refine ⟨L.inc_wf _ hp.wf, ?_, ?_, hlt⟩
  · show v (o.inc it.addr).1 = (p + 1) % M
    rw [L.inc_v _ hp.wf, hv]
  · show (o.inc it.addr).2 = true ↔ p + 1 = M
    rw [L.inc_flag _ hp.wf, hv]

theorem Pos.mkEnd (L : Lawful o wf v M) {a : A} (ha : wf a) : Pos wf v M (Iter.mkEnd o a) (v a + 1) := by
  have := L.v_lt a ha
  refine ⟨L.inc_wf a ha, ?_, ?_, by omega⟩
  · show v (o.inc a).1 = _; exact L.inc_v a ha
  · show (o.inc a).2 = true ↔ _; exact L.inc_flag a ha

theorem Pos.mk' (L : Lawful o wf v M) {a : A} (ha : wf a) : Pos wf v M (Iter.mk' a) (v a) := by
  have := L.v_lt a ha
  refine ⟨ha, ?_, ?_, by omega⟩
  · show v a = v a % M; rw [Nat.mod_eq_of_lt this]
  · show false = true ↔ _; constructor
    · intro h; cases h
    · intro h; omega

theorem take_range'_min (s n k : Nat) : (List.range' s n).take k = List.range' s (min n k) := by
  by_cases h : n ≤ k
  · rw [List.take_range'_of_length_le h, Nat.min_eq_left h]
  · have h' : n ≥ k := by omega
    rw [List.take_range'_of_length_ge h', Nat.min_eq_right h']

/-- the loop `for (; it != e; ++it)` from abstract position `p` to `q`: visits exactly `p, p+1, …` — all of
    `[p, q)` if the budget allows (then it stops *at* `q`), the first `fuel` of them otherwise -/
theorem iterLoop_exact (L : Lawful o wf v M) (e : Iter A) (q : Nat) (hq : Pos wf v M e q) :
    ∀ (fuel : Nat) (it : Iter A) (p : Nat) (acc : List A), Pos wf v M it p → p ≤ q →
      ∃ vis, iterLoop o e fuel it acc = (acc.reverse ++ vis, decide (q - p ≤ fuel)) ∧
             vis.map v = List.range' p (min (q - p) fuel) ∧ (∀ x ∈ vis, wf x) := by
  intro fuel
  induction fuel with
  | zero =>
    intro it p acc hp hpq
    refine ⟨[], ?_, by simp, by simp⟩
    have := Pos.eq_iff L hp hq hpq
    simp only [iterLoop, List.append_nil, Prod.mk.injEq, true_and]
    by_cases h : p = q
    · simp [this.mpr h, h]
    · have hn : Iter.eq o it e = false := by
        cases hh : Iter.eq o it e
        · rfl
        · exact absurd (this.mp hh) h
      rw [hn]; symm; simp; omega
  | succ fuel ih =>
    intro it p acc hp hpq
    have hiff := Pos.eq_iff L hp hq hpq
    unfold iterLoop
    by_cases h : p = q
    · rw [if_pos (hiff.mpr h)]
      exact ⟨[], by simp [h], by simp [h], by simp⟩
    · have hn : ¬ (Iter.eq o it e = true) := fun hh => h (hiff.mp hh)
      rw [if_neg hn]
      have hlt : p < q := by omega
      have hpM : p < M := by have := hq.le; omega
      obtain ⟨vis, h1, h2, h3⟩ := ih (Iter.next o it) (p + 1) (it.addr :: acc) (Pos.next L hp hpM) (by omega)
      have hv : v it.addr = p := by rw [hp.val]; exact Nat.mod_eq_of_lt hpM
      refine ⟨it.addr :: vis, ?_, ?_, ?_⟩
      · rw [h1]
        simp only [List.reverse_cons, List.append_assoc, List.singleton_append, Prod.mk.injEq, true_and]
        simp only [decide_eq_decide]; omega
      · have hm : min (q - p) (fuel + 1) = min (q - (p + 1)) fuel + 1 := by omega
        rw [hm, List.range'_succ, List.map_cons, hv, h2]
      · intro x hx
        cases hx with
        | head => exact hp.wf
        | tail _ hx => exact h3 x hx

/-- **iterate_exact (generic)**: for every iterable range, with any step budget, the loop over
    `begin() … end()` visits exactly the addresses the specification lists — in increasing order, each once —
    and reaches `end()` iff the budget covers them (so it terminates after exactly `iterCount` steps). -/
theorem iterate_exact (L : Lawful o wf v M) (r : Range A) (hr : r.Valid wf v) (hit : r.isIterable o = true)
    (fuel : Nat) :
    ((r.iterate o fuel).1.map v =
        (Spec.expected (v r.first) (v r.last) r.onlyHosts).take fuel) ∧
    (r.iterate o fuel).2 = decide (Spec.iterCount (v r.first) (v r.last) r.onlyHosts ≤ fuel) := by
  have hord := hr.ordered
  have hlM := L.v_lt r.last hr.wf_last
  have hiter := (isIterable_iff L r hr).mp hit
  unfold Range.iterate Range.begin Range.end Spec.expected Spec.iterCount Spec.iterStart
  cases hoh : r.onlyHosts
  · -- all addresses of [first, last]
    simp only [Bool.false_eq_true, if_false]
    have hb := Pos.mk' L hr.wf_first
    have he := Pos.mkEnd L hr.wf_last
    obtain ⟨vis, h1, h2, _⟩ := iterLoop_exact L _ _ he fuel _ _ [] hb (by omega)
    rw [h1]
    simp only [List.reverse_nil, List.nil_append]
    refine ⟨?_, ?_⟩
    · rw [h2, take_range'_min]
    · simp
  · -- hosts only: (first, last)
    simp only [if_true]
    have h3 : v r.first + 3 ≤ v r.last := by
      cases hiter with
      | inl h => rw [hoh] at h; cases h
      | inr h => exact h
    have hvb : v (o.inc r.first).1 = v r.first + 1 := by
      rw [L.inc_v _ hr.wf_first]; exact Nat.mod_eq_of_lt (by omega)
    have hve : v (o.dec r.last).1 = v r.last - 1 := by
      rw [L.dec_v _ hr.wf_last]
      have : v r.last + M - 1 = (v r.last - 1) + M := by omega
      rw [this, Nat.add_mod_right]; exact Nat.mod_eq_of_lt (by omega)
    have hb := Pos.mk' L (L.inc_wf _ hr.wf_first)
    have he := Pos.mkEnd L (L.dec_wf _ hr.wf_last)
    rw [hvb] at hb; rw [hve] at he
    obtain ⟨vis, h1, h2, _⟩ := iterLoop_exact L _ _ he fuel _ _ [] hb (by omega)
    rw [h1]
    simp only [List.reverse_nil, List.nil_append]
    refine ⟨?_, ?_⟩
    · rw [h2, take_range'_min]
      have : v r.last - 1 + 1 - (v r.first + 1) = v r.last - v r.first - 1 := by omega
      rw [this]
    · simp only [decide_eq_decide]; omega

end Tins.Addr
