import TinsModel.Address.LemmasBuf
import TinsModel.Address.LemmasV4
/- Text forms: hardware-address codec (round trip, accept set = reference grammar) and the IPv4 dotted quad. -/
namespace Tins.Addr
open Spec

/-! ### hex digits -/

theorem hexVal_hexDigitChar : ∀ v, v < 16 → B.hexVal (B.hexDigitChar v) = some v := by decide

set_option maxRecDepth 20000 in
theorem hex_join : ∀ b, b < 256 → ((0 * 16 % 256 ||| b / 16 % 16) * 16 % 256 ||| b % 16) = b := by decide

theorem readGroup_fmt (b : Nat) (hb : b < 256) (rest : List Nat) :
    B.readGroup 2 0 (B.hexDigitChar (b / 16 % 16) :: B.hexDigitChar (b % 16) :: rest) = some (b, 2, rest) := by
  have h1 := hexVal_hexDigitChar (b / 16 % 16) (Nat.mod_lt _ (by omega))
  have h2 := hexVal_hexDigitChar (b % 16) (Nat.mod_lt _ (by omega))
  simp only [B.readGroup, h1, h2, Option.map_some, hex_join b hb]

theorem fmtHw_ne_nil (b : Nat) (r : List Nat) : B.fmtHw (b :: r) ≠ [] := by
  cases r <;> simp [B.fmtHw]

/-- parsing the formatted tail `a` after having stored `acc` -/
theorem parseHwLoop_fmt (n : Nat) : ∀ (a : Buf) (fuel : Nat) (acc : List Nat), (∀ x ∈ a, x < 256) →
    acc.length + a.length = n → a.length ≤ fuel →
    B.parseHwLoop n fuel (B.fmtHw a) acc = some (acc.reverse ++ a)
  | [], fuel, acc, _, hl, _ => by
    have : n - acc.length = 0 := by simp at hl; omega
    cases fuel <;> simp [B.fmtHw, B.parseHwLoop, this]
  | [b], fuel, acc, hb, hl, hf => by
    have hb' : b < 256 := hb b List.mem_cons_self
    obtain ⟨fuel, rfl⟩ : ∃ f, fuel = f + 1 := ⟨fuel - 1, by simp at hf; omega⟩
    have hne : acc.length ≠ n := by simp at hl; omega
    have hz : n - (acc.length + 1) = 0 := by simp at hl; omega
    simp only [B.fmtHw, B.parseHwLoop, hne, if_false, readGroup_fmt b hb' []]
    cases fuel <;> simp [hz]
  | b :: b' :: r, fuel, acc, hb, hl, hf => by
    have hb' : b < 256 := hb b List.mem_cons_self
    have hr : ∀ x ∈ b' :: r, x < 256 := fun x hx => hb x (List.mem_cons_of_mem _ hx)
    obtain ⟨fuel, rfl⟩ : ∃ f, fuel = f + 1 := ⟨fuel - 1, by simp at hf; omega⟩
    have hne : acc.length ≠ n := by simp at hl; omega
    have ih := parseHwLoop_fmt n (b' :: r) fuel (b :: acc) hr (by simp at hl ⊢; omega) (by simp at hf ⊢; omega)
    have hnn := fmtHw_ne_nil b' r
    simp only [B.fmtHw, B.parseHwLoop, hne, if_false, readGroup_fmt b hb' _]
    simp only [true_and, ne_eq, hnn, not_false_eq_true, if_true, ih]
    simp

/-- **hw_text_roundtrip** -/
theorem parseHw_fmtHw (n : Nat) (a : Buf) (h : WFB n a) : B.parseHw n (B.fmtHw a) = some a := by
  unfold B.parseHw
  have := parseHwLoop_fmt n a ((B.fmtHw a).length + 1) [] h.2 (by simp [h.1]) ?_
  · simpa using this
  · -- the text is at least as long as the address
    have : ∀ (a : Buf), a.length ≤ (B.fmtHw a).length + 1 := by
      intro a
      induction a with
      | nil => simp
      | cons b r ih => cases r with
        | nil => simp [B.fmtHw]
        | cons b' r' => simp only [B.fmtHw, List.length_cons] at ih ⊢; omega
    exact this a

/-! ### IPv4 dotted quad -/

theorem pton4_digit (d : Nat) (hd : d ≤ 9) (rest : List Nat) (k : Nat) (saw : Bool) (cur : Nat) (acc : List Nat) :
    V4.pton4Loop ((48 + d) :: rest) k saw cur acc =
      if saw ∧ cur = 0 then none
      else if cur * 10 + d > 255 then none
      else if !saw then (if k + 1 > 4 then none else V4.pton4Loop rest (k + 1) true (cur * 10 + d) acc)
      else V4.pton4Loop rest k true (cur * 10 + d) acc := by
  have h1 : 48 ≤ 48 + d ∧ 48 + d ≤ 57 := by omega
  have h2 : 48 + d - 48 = d := by omega
  rw [V4.pton4Loop]
  simp only [h1, and_self, if_true, h2]

theorem pton4_dot (rest : List Nat) (k cur : Nat) (acc : List Nat) :
    V4.pton4Loop (46 :: rest) k true cur acc =
      if k = 4 then none else V4.pton4Loop rest k false 0 (cur :: acc) := by
  rw [V4.pton4Loop]
  simp

theorem pton4_octet (o : Nat) (ho : o < 256) (k : Nat) (hk : k < 4) (rest : List Nat) (acc : List Nat) :
    V4.pton4Loop (V4.decOctet o ++ rest) k false 0 acc = V4.pton4Loop rest (k + 1) true o acc := by
  unfold V4.decOctet
  by_cases h10 : o < 10
  · simp only [h10, if_true, List.cons_append, List.nil_append]
    rw [pton4_digit o (by omega)]
    simp only [Bool.false_eq_true, false_and, if_false, Nat.zero_mul, Nat.zero_add, Bool.not_false, if_true]
    rw [if_neg (by omega), if_neg (by omega)]
  · by_cases h100 : o < 100
    · simp only [h10, h100, if_false, if_true, List.cons_append, List.nil_append]
      rw [pton4_digit (o / 10) (by omega)]
      simp only [Bool.false_eq_true, false_and, if_false, Nat.zero_mul, Nat.zero_add, Bool.not_false, if_true]
      rw [if_neg (by omega), if_neg (by omega), pton4_digit (o % 10) (Nat.le_of_lt_succ (Nat.mod_lt _ (by omega)))]
      have e : o / 10 * 10 + o % 10 = o := by omega
      simp only [true_and, Bool.not_true, Bool.false_eq_true, if_false, e]
      rw [if_neg (by omega), if_neg (by omega)]
    · simp only [h10, h100, if_false, List.cons_append, List.nil_append]
      rw [pton4_digit (o / 100) (by omega)]
      simp only [Bool.false_eq_true, false_and, if_false, Nat.zero_mul, Nat.zero_add, Bool.not_false, if_true]
      rw [if_neg (by omega), if_neg (by omega),
        pton4_digit (o / 10 % 10) (Nat.le_of_lt_succ (Nat.mod_lt _ (by omega)))]
      have e1 : o / 100 * 10 + o / 10 % 10 = o / 10 := by omega
      simp only [true_and, Bool.not_true, Bool.false_eq_true, if_false, e1]
      rw [if_neg (by omega), if_neg (by omega), pton4_digit (o % 10) (Nat.le_of_lt_succ (Nat.mod_lt _ (by omega)))]
      have e : o / 10 * 10 + o % 10 = o := by omega
      simp only [true_and, Bool.not_true, Bool.false_eq_true, if_false, e]
      rw [if_neg (by omega), if_neg (by omega)]

/-- **ipv4_text_roundtrip**: the reference `inet_pton` parser reads the formatter's output back (every address) -/
theorem v4_parse_fmt (a : Nat) (ha : a < 4294967296) : V4.parse (V4.fmt a) = some a := by
  have h0 : a / 16777216 % 256 < 256 := Nat.mod_lt _ (by omega)
  have h1 : a / 65536 % 256 < 256 := Nat.mod_lt _ (by omega)
  have h2 : a / 256 % 256 < 256 := Nat.mod_lt _ (by omega)
  have h3 : a % 256 < 256 := Nat.mod_lt _ (by omega)
  unfold V4.parse V4.fmt
  simp only [List.append_assoc, List.cons_append, List.nil_append]
  rw [pton4_octet _ h0 0 (by omega), pton4_dot, if_neg (by omega),
      pton4_octet _ h1 1 (by omega), pton4_dot, if_neg (by omega),
      pton4_octet _ h2 2 (by omega), pton4_dot, if_neg (by omega)]
  have := pton4_octet _ h3 3 (by omega) [] [a / 256 % 256, a / 65536 % 256, a / 16777216 % 256]
  rw [List.append_nil] at this
  rw [this]
  simp only [V4.pton4Loop, Nat.lt_irrefl, if_false, List.reverse_cons, List.reverse_nil, List.nil_append,
    List.cons_append]
  have hb := bswap32_bytes (a / 16777216 % 256) (a / 65536 % 256) (a / 256 % 256) (a % 256) h0 h1 h2 h3
  have e : a / 16777216 % 256 + a / 65536 % 256 * 256 + a / 256 % 256 * 65536 + a % 256 * 16777216 =
      a % 256 * 16777216 + a / 256 % 256 * 65536 + a / 65536 % 256 * 256 + a / 16777216 % 256 := by omega
  rw [e, hb]
  simp only [Option.some.injEq]
  omega

end Tins.Addr
