import TinsModel.Address.LemmasRange
/- Byte-buffer addresses (IPv6Address, HWAddress<n>): the operation laws for the buffer read as the big-endian
   number `Spec.val`, modulus 256^n. -/
namespace Tins.Addr
open Spec

/-- an `n`-byte buffer -/
def WFB (n : Nat) (a : Buf) : Prop := a.length = n ∧ ∀ b ∈ a, b < 256

/-! ### `val` -/

theorem foldl_val (acc : Nat) (r : List Nat) :
    r.foldl (fun acc b => acc * 256 + b) acc = acc * 256 ^ r.length + r.foldl (fun acc b => acc * 256 + b) 0 := by
  induction r generalizing acc with
  | nil => simp
  | cons b t ih =>
    simp only [List.foldl_cons, List.length_cons]
    rw [ih (acc * 256 + b), ih (0 * 256 + b), Nat.pow_succ]
    simp only [Nat.zero_mul, Nat.zero_add]
    rw [Nat.add_mul, Nat.mul_assoc, Nat.mul_comm 256, Nat.add_assoc]

theorem val_nil : val [] = 0 := rfl

theorem val_cons (b : Nat) (r : List Nat) : val (b :: r) = b * 256 ^ r.length + val r := by
  unfold val
  simp only [List.foldl_cons, Nat.zero_mul, Nat.zero_add]
  exact foldl_val b r

theorem val_append_single (a : List Nat) (b : Nat) : val (a ++ [b]) = val a * 256 + b := by
  unfold val; simp [List.foldl_append]

theorem val_lt (a : List Nat) (h : ∀ b ∈ a, b < 256) : val a < 256 ^ a.length := by
  induction a with
  | nil => simp [val_nil]
  | cons b t ih =>
    have hb : b < 256 := h b (List.mem_cons_self)
    have ht := ih (fun x hx => h x (List.mem_cons_of_mem _ hx))
    rw [val_cons, List.length_cons, Nat.pow_succ]
    have : b * 256 ^ t.length ≤ 255 * 256 ^ t.length := Nat.mul_le_mul_right _ (by omega)
    omega

/-- little-endian reading (of the reversed buffer) -/
def vle : List Nat → Nat
  | [] => 0
  | b :: t => b + 256 * vle t

theorem val_reverse (r : List Nat) : val r.reverse = vle r := by
  induction r with
  | nil => rfl
  | cons b t ih => rw [List.reverse_cons, val_append_single, ih, vle]; omega

theorem vle_reverse (a : List Nat) : vle a.reverse = val a := by
  have := val_reverse a.reverse; rw [List.reverse_reverse] at this; exact this.symm

theorem vle_lt (r : List Nat) (h : ∀ b ∈ r, b < 256) : vle r < 256 ^ r.length := by
  have := val_lt r.reverse (by simpa using h)
  rw [val_reverse, List.length_reverse] at this; exact this

theorem pow256_pos (n : Nat) : 0 < 256 ^ n := Nat.pow_pos (by omega)

/-! ### increment / decrement -/

theorem incRev_spec (r : List Nat) (h : ∀ b ∈ r, b < 256) :
    (B.incRev r).1.length = r.length ∧ (∀ b ∈ (B.incRev r).1, b < 256) ∧
    vle (B.incRev r).1 = (vle r + 1) % 256 ^ r.length ∧
    ((B.incRev r).2 = true ↔ vle r + 1 = 256 ^ r.length) := by
  induction r with
  | nil => simp [B.incRev, vle]
  | cons b t ih =>
    have hb : b < 256 := h b (List.mem_cons_self)
    have ht : ∀ x ∈ t, x < 256 := fun x hx => h x (List.mem_cons_of_mem _ hx)
    obtain ⟨i1, i2, i3, i4⟩ := ih ht
    have hlt := vle_lt t ht
    have hP := pow256_pos t.length
    unfold B.incRev
    by_cases hff : b = 255
    · subst hff
      simp only [if_true, List.length_cons, vle, Nat.pow_succ]
      refine ⟨by rw [i1], ?_, ?_, ?_⟩
      · intro x hx
        cases hx with
        | head => omega
        | tail _ hx => exact i2 x hx
      · rw [i3]
        have : 255 + 256 * vle t + 1 = 256 * (vle t + 1) := by omega
        rw [this, Nat.mul_comm (256 ^ t.length) 256, Nat.mul_mod_mul_left]; omega
      · rw [i4]; omega
    · simp only [if_neg hff, List.length_cons, vle, Nat.pow_succ]
      have hb1 : (b + 1) % 256 = b + 1 := Nat.mod_eq_of_lt (by omega)
      refine ⟨trivial, ?_, ?_, ?_⟩
      · intro x hx
        cases hx with
        | head => exact Nat.mod_lt _ (by omega)
        | tail _ hx => exact ht x hx
      · rw [hb1]
        have : b + 1 + 256 * vle t < 256 ^ t.length * 256 := by omega
        rw [show b + 256 * vle t + 1 = b + 1 + 256 * vle t by omega, Nat.mod_eq_of_lt this]
      · constructor
        · intro hf; cases hf
        · intro; omega

theorem decRev_spec (r : List Nat) (h : ∀ b ∈ r, b < 256) :
    (B.decRev r).1.length = r.length ∧ (∀ b ∈ (B.decRev r).1, b < 256) ∧
    vle (B.decRev r).1 = (vle r + 256 ^ r.length - 1) % 256 ^ r.length := by
  induction r with
  | nil => simp [B.decRev, vle]
  | cons b t ih =>
    have hb : b < 256 := h b (List.mem_cons_self)
    have ht : ∀ x ∈ t, x < 256 := fun x hx => h x (List.mem_cons_of_mem _ hx)
    obtain ⟨i1, i2, i3⟩ := ih ht
    have hlt := vle_lt t ht
    have hP := pow256_pos t.length
    unfold B.decRev
    by_cases h0 : b = 0
    · subst h0
      simp only [if_true, List.length_cons, vle, Nat.pow_succ]
      refine ⟨by rw [i1], ?_, ?_⟩
      · intro x hx
        cases hx with
        | head => omega
        | tail _ hx => exact i2 x hx
      · rw [i3]
        -- 255 + 256 * ((v + P - 1) % P) = (256 v + 256 P - 1) % (256 P)
        by_cases hv : vle t = 0
        · rw [hv]
          have e1 : (0 + 256 ^ t.length - 1) % 256 ^ t.length = 256 ^ t.length - 1 := by
            rw [Nat.zero_add]; exact Nat.mod_eq_of_lt (by omega)
          have e2 : (0 + 256 * 0 + 256 ^ t.length * 256 - 1) % (256 ^ t.length * 256) = 256 ^ t.length * 256 - 1 := by
            simp only [Nat.mul_zero, Nat.zero_add]; exact Nat.mod_eq_of_lt (by omega)
          rw [e1, e2]; omega
        · have e1 : (vle t + 256 ^ t.length - 1) % 256 ^ t.length = vle t - 1 := by
            have : vle t + 256 ^ t.length - 1 = (vle t - 1) + 256 ^ t.length := by omega
            rw [this, Nat.add_mod_right]; exact Nat.mod_eq_of_lt (by omega)
          have e2 : (0 + 256 * vle t + 256 ^ t.length * 256 - 1) % (256 ^ t.length * 256) = 256 * vle t - 1 := by
            have : 0 + 256 * vle t + 256 ^ t.length * 256 - 1 = (256 * vle t - 1) + 256 ^ t.length * 256 := by omega
            rw [this, Nat.add_mod_right]; exact Nat.mod_eq_of_lt (by omega)
          rw [e1, e2]; omega
    · simp only [if_neg h0, List.length_cons, vle, Nat.pow_succ]
      have hb1 : (b + 255) % 256 = b - 1 := by omega
      refine ⟨trivial, ?_, ?_⟩
      · intro x hx
        cases hx with
        | head => exact Nat.mod_lt _ (by omega)
        | tail _ hx => exact ht x hx
      · rw [hb1]
        have : b + 256 * vle t + 256 ^ t.length * 256 - 1 = (b - 1 + 256 * vle t) + 256 ^ t.length * 256 := by omega
        rw [this, Nat.add_mod_right, Nat.mod_eq_of_lt (by omega)]

theorem inc_spec (n : Nat) (a : Buf) (h : WFB n a) :
    WFB n (B.inc a).1 ∧ val (B.inc a).1 = (val a + 1) % 256 ^ n ∧ ((B.inc a).2 = true ↔ val a + 1 = 256 ^ n) := by
  obtain ⟨hl, hb⟩ := h
  have hr : ∀ b ∈ a.reverse, b < 256 := by simpa using hb
  obtain ⟨i1, i2, i3, i4⟩ := incRev_spec a.reverse hr
  rw [List.length_reverse, hl] at i1 i3 i4
  rw [vle_reverse] at i3 i4
  unfold B.inc
  refine ⟨⟨by simp [i1], by simpa using i2⟩, ?_, i4⟩
  show val (B.incRev a.reverse).1.reverse = _
  rw [val_reverse, i3]

theorem dec_spec (n : Nat) (a : Buf) (h : WFB n a) :
    WFB n (B.dec a).1 ∧ val (B.dec a).1 = (val a + 256 ^ n - 1) % 256 ^ n := by
  obtain ⟨hl, hb⟩ := h
  have hr : ∀ b ∈ a.reverse, b < 256 := by simpa using hb
  obtain ⟨i1, i2, i3⟩ := decRev_spec a.reverse hr
  rw [List.length_reverse, hl] at i1 i3
  rw [vle_reverse] at i3
  unfold B.dec
  refine ⟨⟨by simp [i1], by simpa using i2⟩, ?_⟩
  show val (B.decRev a.reverse).1.reverse = _
  rw [val_reverse, i3]

/-! ### order and equality -/

theorem lt_iff_val : ∀ (a b : Buf), a.length = b.length → (∀ x ∈ a, x < 256) → (∀ x ∈ b, x < 256) →
    (B.lt a b = true ↔ val a < val b)
  | [], [], _, _, _ => by simp [B.lt, val_nil]
  | [], _ :: _, h, _, _ => by simp at h
  | _ :: _, [], h, _, _ => by simp at h
  | x :: xs, y :: ys, hl, ha, hb => by
    have hl' : xs.length = ys.length := by simpa using hl
    have hxs : ∀ z ∈ xs, z < 256 := fun z hz => ha z (List.mem_cons_of_mem _ hz)
    have hys : ∀ z ∈ ys, z < 256 := fun z hz => hb z (List.mem_cons_of_mem _ hz)
    have ih := lt_iff_val xs ys hl' hxs hys
    have h1 := val_lt xs hxs
    have h2 := val_lt ys hys
    rw [hl'] at h1
    rw [val_cons, val_cons, hl']
    unfold B.lt
    by_cases hxy : x < y
    · simp only [hxy, if_true, true_iff]
      have : (x + 1) * 256 ^ ys.length ≤ y * 256 ^ ys.length := Nat.mul_le_mul_right _ hxy
      rw [Nat.add_mul] at this; omega
    · by_cases hyx : y < x
      · simp only [hxy, hyx, if_false, if_true]
        have : (y + 1) * 256 ^ ys.length ≤ x * 256 ^ ys.length := Nat.mul_le_mul_right _ hyx
        rw [Nat.add_mul] at this
        constructor
        · intro hf; cases hf
        · intro; omega
      · have : x = y := by omega
        subst this
        simp only [hxy, if_false]
        rw [ih]; omega

theorem eq_iff_eq : ∀ (a b : Buf), a.length = b.length → (B.eq a b = true ↔ a = b)
  | [], [], _ => by simp [B.eq]
  | [], _ :: _, h => by simp at h
  | _ :: _, [], h => by simp at h
  | x :: xs, y :: ys, hl => by
    have ih := eq_iff_eq xs ys (by simpa using hl)
    simp only [B.eq, Bool.and_eq_true, beq_iff_eq, ih, List.cons.injEq]

theorem val_inj : ∀ (a b : Buf), a.length = b.length → (∀ x ∈ a, x < 256) → (∀ x ∈ b, x < 256) →
    val a = val b → a = b
  | [], [], _, _, _, _ => rfl
  | [], _ :: _, h, _, _, _ => by simp at h
  | _ :: _, [], h, _, _, _ => by simp at h
  | x :: xs, y :: ys, hl, ha, hb, hv => by
    have hl' : xs.length = ys.length := by simpa using hl
    have hxs : ∀ z ∈ xs, z < 256 := fun z hz => ha z (List.mem_cons_of_mem _ hz)
    have hys : ∀ z ∈ ys, z < 256 := fun z hz => hb z (List.mem_cons_of_mem _ hz)
    have h1 := val_lt xs hxs
    have h2 := val_lt ys hys
    rw [hl'] at h1
    rw [val_cons, val_cons, hl'] at hv
    have hxy : x = y := by
      rcases Nat.lt_trichotomy x y with h | h | h
      · have : (x + 1) * 256 ^ ys.length ≤ y * 256 ^ ys.length := Nat.mul_le_mul_right _ h
        rw [Nat.add_mul] at this; omega
      · exact h
      · have : (y + 1) * 256 ^ ys.length ≤ x * 256 ^ ys.length := Nat.mul_le_mul_right _ h
        rw [Nat.add_mul] at this; omega
    subst hxy
    have : val xs = val ys := by omega
    rw [val_inj xs ys hl' hxs hys this]

/-! ### the laws -/

theorem bufLawful (n : Nat) : Lawful bufOps (WFB n) val (256 ^ n) where
  v_lt := by
    intro a h; have := val_lt a h.2; rw [h.1] at this; exact this
  v_inj := by
    intro a b ha hb h; exact val_inj a b (by rw [ha.1, hb.1]) ha.2 hb.2 h
  inc_wf := fun a h => (inc_spec n a h).1
  inc_v := fun a h => (inc_spec n a h).2.1
  inc_flag := fun a h => (inc_spec n a h).2.2
  dec_wf := fun a h => (dec_spec n a h).1
  dec_v := fun a h => (dec_spec n a h).2
  lt_iff := by
    intro a b ha hb; exact lt_iff_val a b (by rw [ha.1, hb.1]) ha.2 hb.2
  eq_iff := by
    intro a b ha hb
    show B.eq a b = true ↔ _
    rw [eq_iff_eq a b (by rw [ha.1, hb.1])]
    constructor
    · intro h; rw [h]
    · intro h; exact val_inj a b (by rw [ha.1, hb.1]) ha.2 hb.2 h

end Tins.Addr
