import TinsModel.Address.LemmasBuf
import TinsModel.Address.LemmasV4
/- Masks: byte-wise AND / OR / NOT on buffers are the bitwise operations on the numbers; the prefix-length masks are
   `2^W - 2^(W-p)`; a prefix range is the aligned block of `2^(W-p)` addresses around the address. -/
namespace Tins.Addr
open Spec

/-! ### bitwise operations on "concatenated" numbers -/

theorem land_concat (j x x' y y' : Nat) (hy : y < 2 ^ j) (hy' : y' < 2 ^ j) :
    (2 ^ j * x + y) &&& (2 ^ j * x' + y') = 2 ^ j * (x &&& x') + (y &&& y') := by
  apply Nat.eq_of_testBit_eq; intro i
  rw [Nat.testBit_and, Nat.testBit_two_pow_mul_add _ hy, Nat.testBit_two_pow_mul_add _ hy',
    Nat.testBit_two_pow_mul_add _ (Nat.and_lt_two_pow _ hy')]
  split <;> simp [Nat.testBit_and]

theorem lor_concat (j x x' y y' : Nat) (hy : y < 2 ^ j) (hy' : y' < 2 ^ j) :
    (2 ^ j * x + y) ||| (2 ^ j * x' + y') = 2 ^ j * (x ||| x') + (y ||| y') := by
  apply Nat.eq_of_testBit_eq; intro i
  rw [Nat.testBit_or, Nat.testBit_two_pow_mul_add _ hy, Nat.testBit_two_pow_mul_add _ hy',
    Nat.testBit_two_pow_mul_add _ (Nat.or_lt_two_pow hy hy')]
  split <;> simp [Nat.testBit_or]

theorem pow256 (k : Nat) : 256 ^ k = 2 ^ (8 * k) := by
  rw [show (256 : Nat) = 2 ^ 8 from rfl, ← Nat.pow_mul]

theorem lor_low_ones (j r : Nat) (hr : r < 2 ^ j) : r ||| (2 ^ j - 1) = 2 ^ j - 1 := by
  apply Nat.eq_of_testBit_eq; intro i
  rw [Nat.testBit_or, Nat.testBit_two_pow_sub_one]
  by_cases h : i < j
  · simp [h]
  · have : r < 2 ^ i := Nat.lt_of_lt_of_le hr (Nat.pow_le_pow_right (by omega) (by omega))
    simp [h, Nat.testBit_lt_two_pow this]

/-- AND with the mask of prefix length `W - j` clears the low `j` bits -/
theorem land_prefix (W j a : Nat) (hj : j ≤ W) (ha : a < 2 ^ W) : a &&& (2 ^ W - 2 ^ j) = a - a % 2 ^ j := by
  have hW : 2 ^ W = 2 ^ j * 2 ^ (W - j) := by rw [← Nat.pow_add]; congr 1; omega
  have hq : a / 2 ^ j < 2 ^ (W - j) := Nat.div_lt_of_lt_mul (by rw [← hW]; exact ha)
  have hpos : 0 < 2 ^ j := Nat.pow_pos (by omega)
  have hposq : 0 < 2 ^ (W - j) := Nat.pow_pos (by omega)
  have hm : 2 ^ W - 2 ^ j = 2 ^ j * (2 ^ (W - j) - 1) + 0 := by
    rw [Nat.mul_sub, ← hW]; simp
  have hda := Nat.div_add_mod a (2 ^ j)
  have e : a &&& (2 ^ W - 2 ^ j) = (2 ^ j * (a / 2 ^ j) + a % 2 ^ j) &&& (2 ^ j * (2 ^ (W - j) - 1) + 0) := by
    rw [hda, ← hm]
  rw [e, land_concat _ _ _ _ _ (Nat.mod_lt _ hpos) hpos, Nat.and_two_pow_sub_one_eq_mod, Nat.mod_eq_of_lt hq]
  simp only [Nat.and_zero, Nat.add_zero]
  omega

/-- OR with the complement of that mask sets the low `j` bits -/
theorem lor_prefix (W j a : Nat) (hj : j ≤ W) :
    a ||| (2 ^ W - 1 - (2 ^ W - 2 ^ j)) = a - a % 2 ^ j + 2 ^ j - 1 := by
  have hpos : 0 < 2 ^ j := Nat.pow_pos (by omega)
  have hle : 2 ^ j ≤ 2 ^ W := Nat.pow_le_pow_right (by omega) hj
  have hm : 2 ^ W - 1 - (2 ^ W - 2 ^ j) = 2 ^ j * 0 + (2 ^ j - 1) := by omega
  have hda := Nat.div_add_mod a (2 ^ j)
  have e : a ||| (2 ^ W - 1 - (2 ^ W - 2 ^ j)) = (2 ^ j * (a / 2 ^ j) + a % 2 ^ j) ||| (2 ^ j * 0 + (2 ^ j - 1)) := by
    rw [hda, ← hm]
  rw [e, lor_concat _ _ _ _ _ (Nat.mod_lt _ hpos) (by omega), lor_low_ones _ _ (Nat.mod_lt _ hpos)]
  simp only [Nat.or_zero]
  omega

/-! ### byte-wise operations on buffers -/

theorem band_val : ∀ (a m : Buf), a.length = m.length → (∀ x ∈ a, x < 256) → (∀ x ∈ m, x < 256) →
    val (B.band a m) = val a &&& val m ∧ (B.band a m).length = a.length ∧ (∀ x ∈ B.band a m, x < 256)
  | [], [], _, _, _ => by simp [B.band, val_nil]
  | [], _ :: _, h, _, _ => by simp at h
  | _ :: _, [], h, _, _ => by simp at h
  | x :: xs, y :: ys, hl, ha, hb => by
    have hl' : xs.length = ys.length := by simpa using hl
    have hxs : ∀ z ∈ xs, z < 256 := fun z hz => ha z (List.mem_cons_of_mem _ hz)
    have hys : ∀ z ∈ ys, z < 256 := fun z hz => hb z (List.mem_cons_of_mem _ hz)
    have hy : y < 256 := hb y List.mem_cons_self
    obtain ⟨i1, i2, i3⟩ := band_val xs ys hl' hxs hys
    have h1 := val_lt xs hxs
    have h2 := val_lt ys hys
    unfold B.band at i1 i2 i3 ⊢
    simp only [List.zipWith_cons_cons, List.length_cons]
    refine ⟨?_, by rw [i2], ?_⟩
    · rw [val_cons, val_cons, val_cons, i1, i2, ← hl', pow256] at *
      rw [Nat.mul_comm x, Nat.mul_comm y, land_concat _ _ _ _ _ h1 h2, Nat.mul_comm]
      rfl
    · intro z hz
      cases hz with
      | head => exact Nat.lt_of_le_of_lt Nat.and_le_right hy
      | tail _ hz => exact i3 z hz

theorem bnot_val (a : Buf) (ha : ∀ x ∈ a, x < 256) :
    val (B.bnot a) = 256 ^ a.length - 1 - val a ∧ (B.bnot a).length = a.length ∧ (∀ x ∈ B.bnot a, x < 256) := by
  induction a with
  | nil => simp [B.bnot, val_nil]
  | cons x xs ih =>
    have hx : x < 256 := ha x List.mem_cons_self
    have hxs : ∀ z ∈ xs, z < 256 := fun z hz => ha z (List.mem_cons_of_mem _ hz)
    obtain ⟨i1, i2, i3⟩ := ih hxs
    have h1 := val_lt xs hxs
    unfold B.bnot at i1 i2 i3 ⊢
    simp only [List.map_cons, List.length_cons]
    refine ⟨?_, by rw [i2], ?_⟩
    · rw [val_cons, val_cons, i1, List.length_map, Nat.pow_succ]
      have e : (255 - x) * 256 ^ xs.length + x * 256 ^ xs.length = 255 * 256 ^ xs.length := by
        rw [← Nat.add_mul]; congr 1; omega
      omega
    · intro z hz
      cases hz with
      | head => omega
      | tail _ hz => exact i3 z hz

theorem bor_val : ∀ (a m : Buf), a.length = m.length → (∀ x ∈ a, x < 256) → (∀ x ∈ m, x < 256) →
    val (B.bor a m) = val a ||| val m ∧ (B.bor a m).length = a.length ∧ (∀ x ∈ B.bor a m, x < 256)
  | [], [], _, _, _ => by simp [B.bor, val_nil]
  | [], _ :: _, h, _, _ => by simp at h
  | _ :: _, [], h, _, _ => by simp at h
  | x :: xs, y :: ys, hl, ha, hb => by
    have hl' : xs.length = ys.length := by simpa using hl
    have hxs : ∀ z ∈ xs, z < 256 := fun z hz => ha z (List.mem_cons_of_mem _ hz)
    have hys : ∀ z ∈ ys, z < 256 := fun z hz => hb z (List.mem_cons_of_mem _ hz)
    have hx : x < 256 := ha x List.mem_cons_self
    have hy : y < 256 := hb y List.mem_cons_self
    obtain ⟨i1, i2, i3⟩ := bor_val xs ys hl' hxs hys
    have h1 := val_lt xs hxs
    have h2 := val_lt ys hys
    unfold B.bor at i1 i2 i3 ⊢
    simp only [List.zipWith_cons_cons, List.length_cons]
    refine ⟨?_, by rw [i2], ?_⟩
    · rw [val_cons, val_cons, val_cons, i1, i2, ← hl', pow256] at *
      rw [Nat.mul_comm x, Nat.mul_comm y, lor_concat _ _ _ _ _ h1 h2, Nat.mul_comm]
      rfl
    · intro z hz
      cases hz with
      | head => exact Nat.or_lt_two_pow (n := 8) hx hy
      | tail _ hz => exact i3 z hz

theorem lastFromMask_eq (a m : Buf) : B.lastFromMask a m = B.bor a (B.bnot m) := by
  unfold B.lastFromMask B.bor B.bnot
  rw [List.zipWith_map_right]

theorem lastFromMask_val (n : Nat) (a m : Buf) (ha : WFB n a) (hm : WFB n m) :
    val (B.lastFromMask a m) = val a ||| (256 ^ n - 1 - val m) ∧ WFB n (B.lastFromMask a m) := by
  obtain ⟨n1, n2, n3⟩ := bnot_val m hm.2
  obtain ⟨o1, o2, o3⟩ := bor_val a (B.bnot m) (by rw [n2, ha.1, hm.1]) ha.2 n3
  rw [lastFromMask_eq, o1, n1, hm.1]
  exact ⟨rfl, by rw [o2, ha.1], o3⟩

/-! ### prefix-length masks -/

theorem byteMask (p : Nat) (hp : p ≤ 8) : (255 <<< (8 - p)) % 256 = 256 - 2 ^ (8 - p) := by
  have : p = 0 ∨ p = 1 ∨ p = 2 ∨ p = 3 ∨ p = 4 ∨ p = 5 ∨ p = 6 ∨ p = 7 ∨ p = 8 := by omega
  rcases this with h | h | h | h | h | h | h | h | h <;> subst h <;> decide

theorem val_replicate_zero (k : Nat) : val (List.replicate k 0) = 0 := by
  induction k with
  | zero => rfl
  | succ k ih => rw [List.replicate_succ, val_cons, ih]; simp

theorem prefixMask_spec : ∀ (k p : Nat), p ≤ 8 * k →
    WFB k (B.prefixMask k p) ∧ val (B.prefixMask k p) = 256 ^ k - 2 ^ (8 * k - p)
  | 0, p, hp => by
    have : p = 0 := by omega
    subst this; simp [B.prefixMask, WFB, val_nil]
  | k + 1, p, hp => by
    unfold B.prefixMask
    by_cases h8 : p > 8
    · obtain ⟨⟨l, b⟩, v⟩ := prefixMask_spec k (p - 8) (by omega)
      simp only [h8, if_true]
      refine ⟨⟨by simp [l], ?_⟩, ?_⟩
      · intro x hx
        cases hx with
        | head => omega
        | tail _ hx => exact b x hx
      · rw [val_cons, v, l, Nat.pow_succ]
        have e : 8 * k - (p - 8) = 8 * (k + 1) - p := by omega
        rw [e]
        have hle : 2 ^ (8 * (k + 1) - p) ≤ 256 ^ k := by
          rw [pow256]; exact Nat.pow_le_pow_right (by omega) (by omega)
        omega
    · simp only [h8, if_false]
      have hp8 : p ≤ 8 := by omega
      refine ⟨⟨by simp, ?_⟩, ?_⟩
      · intro x hx
        cases hx with
        | head => exact Nat.mod_lt _ (by omega)
        | tail _ hx => rw [List.eq_of_mem_replicate hx]; omega
      · rw [val_cons, val_replicate_zero, List.length_replicate, byteMask p hp8, Nat.add_zero, Nat.pow_succ]
        have e : 2 ^ (8 * (k + 1) - p) = 2 ^ (8 - p) * 256 ^ k := by
          rw [pow256, ← Nat.pow_add]; congr 1; omega
        rw [e, Nat.sub_mul, Nat.mul_comm 256]

/-- `IPv4Address::from_prefix_length` for every legal prefix length -/
theorem v4_fromPrefixLength : ∀ p, p < 33 → V4.fromPrefixLength p = 4294967296 - 2 ^ (32 - p) := by
  decide

end Tins.Addr
