/-
  Code-shaped model of the libtins address types (property C16).

  Anchors: src/ip_address.cpp, src/ipv6_address.cpp, src/hw_address.cpp, include/tins/hw_address.h,
  include/tins/address_range.h, include/tins/detail/address_helpers.h, src/detail/address_helpers.cpp,
  src/address_range.cpp.

  * Bytes are `Nat` with the `uint8_t` wrap written out (`% 256`) where the C++ wraps.
  * `IPv4Address` is its member `ip_addr_` (a `uint32_t` holding the address in *host* order); the
    `Endian::host_to_be / be_to_host` calls at the API boundary are kept as `bswap32` (this sandbox and the
    model follow the little-endian `#if` branch).
  * `IPv6Address` / `HWAddress<n>` are their byte buffers (`List Nat`, most significant byte first).
  * `AddressRange<Address>` / `AddressRangeIterator<Address>` are generic in the C++ (templates); the model is
    generic over the record `Ops` of the functions the templates call (`Internals::increment`, `decrement`,
    `operator<`, `operator==`, `operator&`, `Internals::last_address_from_mask`).
-/
namespace Tins.Addr

/-! ## IPv4Address -/

/-- `uint32_t` wrap. -/
def wrap32 (x : Nat) : Nat := x % 4294967296

/-- `Endian::change_endian<uint32_t>` (both `host_to_be` and `be_to_host` on a little-endian host). -/
def bswap32 (x : Nat) : Nat :=
  (x % 256) * 16777216 + (x / 256 % 256) * 65536 + (x / 65536 % 256) * 256 + (x / 16777216 % 256)

namespace V4

/-- `IPv4Address::IPv4Address(uint32_t ip) : ip_addr_(Endian::be_to_host(ip))` -/
def ofU32 (ip : Nat) : Nat := bswap32 ip

/-- `IPv4Address::operator uint32_t() const { return Endian::host_to_be(ip_addr_); }` -/
def toU32 (a : Nat) : Nat := bswap32 a

/-- `bool increment(IPv4Address& addr)`:
    `addr_int = be_to_host<uint32_t>(addr); reached_end = ++addr_int == 0; addr = IPv4Address(be_to_host(addr_int))` -/
def inc (a : Nat) : Nat × Bool :=
  let addrInt := bswap32 (toU32 a)
  let n := wrap32 (addrInt + 1)
  (ofU32 (bswap32 n), n == 0)

/-- `bool decrement(IPv4Address& addr)`: `reached_end = --addr_int == 0` -/
def dec (a : Nat) : Nat × Bool :=
  let addrInt := bswap32 (toU32 a)
  let n := wrap32 (addrInt + 4294967295)
  (ofU32 (bswap32 n), n == 0)

def lt (a b : Nat) : Bool := decide (a < b)
def gt (a b : Nat) : Bool := decide (a > b)
def eq (a b : Nat) : Bool := a == b

/-- `operator&`: `IPv4Address(Endian::be_to_host(ip_addr_ & mask.ip_addr_))` -/
def band (a m : Nat) : Nat := ofU32 (bswap32 (Nat.land a m))
def bor (a m : Nat) : Nat := ofU32 (bswap32 (Nat.lor a m))
/-- `operator~`: `~ip_addr_` on 32 bits -/
def bnot (a : Nat) : Nat := ofU32 (bswap32 (4294967295 - a))

/-- `last_address_from_mask(IPv4Address addr, IPv4Address mask)`: `addr_int | ~mask_int` -/
def lastFromMask (a m : Nat) : Nat :=
  let addrInt := bswap32 (toU32 a)
  let maskInt := bswap32 (toU32 m)
  ofU32 (bswap32 (Nat.lor addrInt (4294967295 - maskInt)))

/-- `IPv4Address::from_prefix_length(p)`:
    `IPv4Address(p ? host_to_be(0xffffffff << (32 - p)) : 0u)`; for `p > 32` the shift count underflows (UB) —
    `operator/` rejects that before calling, the model returns 0 there. -/
def fromPrefixLength (p : Nat) : Nat :=
  if p = 0 ∨ p > 32 then ofU32 0 else ofU32 (bswap32 (wrap32 (4294967295 <<< (32 - p))))

/-- `std::hash<IPv4Address>`: `std::hash<uint32_t>()(addr)` (identity in libstdc++) -/
def hash (a : Nat) : Nat := toU32 a

/-- one decimal octet as `operator<<(ostream&, unsigned)` prints it -/
def decOctet (n : Nat) : List Nat :=
  if n < 10 then [48 + n]
  else if n < 100 then [48 + n / 10, 48 + n % 10]
  else [48 + n / 100, 48 + n / 10 % 10, 48 + n % 10]

/-- `operator<<(ostream&, const IPv4Address&)`: `(ip_addr_ >> mask) & 0xff` for mask = 24, 16, 8, 0 joined by '.' -/
def fmt (a : Nat) : List Nat :=
  decOctet (a / 16777216 % 256) ++ [46] ++ decOctet (a / 65536 % 256) ++ [46] ++
  decOctet (a / 256 % 256) ++ [46] ++ decOctet (a % 256)

/-- Reference model of glibc `inet_pton4` (external; validated against libc by the correspondence):
    state = (octets seen, saw a digit in the current octet, current value, finished octets (reversed)). -/
def pton4Loop : List Nat → Nat → Bool → Nat → List Nat → Option (List Nat)
  | [], octets, _, cur, acc => if octets < 4 then none else some (cur :: acc).reverse
  | ch :: rest, octets, saw, cur, acc =>
    if 48 ≤ ch ∧ ch ≤ 57 then
      let new := cur * 10 + (ch - 48)
      if saw ∧ cur = 0 then none
      else if new > 255 then none
      else if !saw then (if octets + 1 > 4 then none else pton4Loop rest (octets + 1) true new acc)
      else pton4Loop rest octets true new acc
    else if ch = 46 ∧ saw then
      if octets = 4 then none else pton4Loop rest octets false 0 (cur :: acc)
    else none

/-- `IPv4Address::ip_to_int`: `inet_pton(AF_INET, ip, &addr) == 1 ? be_to_host(addr.s_addr) : throw invalid_address`;
    `none` = `invalid_address`. The text is the C string, i.e. it ends at the first NUL. -/
def parse (s : List Nat) : Option Nat :=
  match pton4Loop s 0 false 0 [] with
  | some [b0, b1, b2, b3] =>
    -- s_addr holds the four bytes in memory order; loaded as a little-endian uint32_t, then be_to_host
    some (bswap32 (b0 + b1 * 256 + b2 * 65536 + b3 * 16777216))
  | _ => none

end V4

/-! ## byte-buffer addresses (IPv6Address, HWAddress<n>) -/

abbrev Buf := List Nat

namespace B

/-- `increment_buffer` on the reversed buffer (the C++ walks from `end() - 1` towards `begin()`):
    bytes equal to 0xff become 0; running off the front returns `true`; otherwise the byte is incremented. -/
def incRev : List Nat → List Nat × Bool
  | [] => ([], true)
  | b :: r => if b = 255 then let (r', c) := incRev r; (0 :: r', c) else ((b + 1) % 256 :: r, false)

def decRev : List Nat → List Nat × Bool
  | [] => ([], true)
  | b :: r => if b = 0 then let (r', c) := decRev r; (255 :: r', c) else ((b + 255) % 256 :: r, false)

def inc (a : Buf) : Buf × Bool := let (r, c) := incRev a.reverse; (r.reverse, c)
def dec (a : Buf) : Buf × Bool := let (r, c) := decRev a.reverse; (r.reverse, c)

/-- `std::lexicographical_compare(begin(), end(), rhs.begin(), rhs.end())` -/
def lt : Buf → Buf → Bool
  | [], [] => false
  | [], _ :: _ => true
  | _ :: _, [] => false
  | x :: xs, y :: ys => if x < y then true else if y < x then false else lt xs ys

def gt (a b : Buf) : Bool := lt b a

/-- `std::equal(begin(), end(), rhs.begin())` -/
def eq : Buf → Buf → Bool
  | [], _ => true
  | _ :: _, [] => false
  | x :: xs, y :: ys => x == y && eq xs ys

def band (a m : Buf) : Buf := List.zipWith Nat.land a m
def bor (a m : Buf) : Buf := List.zipWith Nat.lor a m
/-- `~*it` stored back into a `uint8_t` -/
def bnot (a : Buf) : Buf := a.map (fun x => 255 - x)

/-- `last_address_from_mask`: `*addr_iter = *addr_iter | ~*it` (stored into a `uint8_t`) -/
def lastFromMask (a m : Buf) : Buf := List.zipWith (fun x y => Nat.lor x (255 - y)) a m

/-- `IPv6Address::from_prefix_length` and the loop inside `operator/(HWAddress<n>, int)`:
    `while (p > 8) { *it = 0xff; ++it; p -= 8; }  *it = 0xff << (8 - p);` on a zeroed buffer of `k` bytes.
    (Running off a buffer that is too short is outside `0 ≤ p ≤ 8k`, which `operator/` enforces from above.) -/
def prefixMask : Nat → Nat → Buf
  | 0, _ => []
  | k + 1, p => if p > 8 then 255 :: prefixMask k (p - 8) else (255 <<< (8 - p)) % 256 :: List.replicate k 0

/-- `std::hash<IPv6Address>` (boost-style combine on `size_t` = 64 bit) -/
def hash6 (a : Buf) : UInt64 :=
  a.foldl (fun out b => out ^^^ (UInt64.ofNat (b + 0x9e3779b9) + (out <<< 6) + (out >>> 2))) (UInt64.ofNat 16)

/-! ### hardware-address text codec (src/hw_address.cpp) -/

def hexDigitChar (v : Nat) : Nat := if v > 9 then v + 87 else v + 48

/-- `hw_address_to_string` -/
def fmtHw : Buf → List Nat
  | [] => []
  | [b] => [hexDigitChar (b / 16 % 16), hexDigitChar (b % 16)]
  | b :: r => hexDigitChar (b / 16 % 16) :: hexDigitChar (b % 16) :: 58 :: fmtHw r

def hexVal (c : Nat) : Option Nat :=
  if 97 ≤ c ∧ c ≤ 102 then some (c - 97 + 10)
  else if 65 ≤ c ∧ c ≤ 70 then some (c - 65 + 10)
  else if 48 ≤ c ∧ c ≤ 57 then some (c - 48)
  else none

/-- inner `while (i < end && i < hw_addr.size())` of `string_to_hw_address`: at most `k` hex digits, stops in front
    of a ':', any other character throws (`none`). Returns (tmp, digits read, rest of the text). -/
def readGroup : Nat → Nat → List Nat → Option (Nat × Nat × List Nat)
  | 0, tmp, s => some (tmp, 0, s)
  | _ + 1, tmp, [] => some (tmp, 0, [])
  | k + 1, tmp, c :: s =>
    match hexVal c with
    | some v => (readGroup k ((tmp * 16) % 256 ||| v) s).map (fun (t, d, r) => (t, d + 1, r))
    | none => if c = 58 then some (tmp, 0, c :: s) else none

/-- outer loop of `string_to_hw_address` (`fuel` ≥ text length; every round consumes at least one character).
    `acc` = the bytes written so far, reversed. `none` = `throw invalid_address()`. -/
def parseHwLoop (n : Nat) : Nat → List Nat → List Nat → Option Buf
  | _, [], acc => some (acc.reverse ++ List.replicate (n - acc.length) 0)
  | 0, _ :: _, _ => none
  | fuel + 1, c :: s, acc =>
    if acc.length = n then none            -- text after the last group
    else match readGroup 2 0 (c :: s) with
      | none => none
      | some (tmp, digits, rest) =>
        if digits = 0 then none            -- empty group
        else match rest with
          | [] => parseHwLoop n fuel [] (tmp :: acc)
          | c' :: rest' =>
            if c' = 58 ∧ rest' ≠ [] then parseHwLoop n fuel rest' (tmp :: acc)   -- a separator is followed by a group
            else none

/-- `string_to_hw_address(hw_addr, output, n)` -/
def parseHw (n : Nat) (s : List Nat) : Option Buf := parseHwLoop n (s.length + 1) s []

end B

/-! ## AddressRange<Address> / AddressRangeIterator<Address> (include/tins/address_range.h) -/

/-- what the class templates need from `Address` -/
structure Ops (A : Type) where
  inc : A → A × Bool
  dec : A → A × Bool
  lt : A → A → Bool
  eq : A → A → Bool
  band : A → A → A
  lastFromMask : A → A → A

def v4Ops : Ops Nat := ⟨V4.inc, V4.dec, V4.lt, V4.eq, V4.band, V4.lastFromMask⟩
def bufOps : Ops Buf := ⟨B.inc, B.dec, B.lt, B.eq, B.band, B.lastFromMask⟩

structure Iter (A : Type) where
  addr : A
  reachedEnd : Bool

structure Range (A : Type) where
  first : A
  last : A
  onlyHosts : Bool

variable {A : Type}

/-- `AddressRangeIterator(address)` -/
def Iter.mk' (a : A) : Iter A := ⟨a, false⟩
/-- `AddressRangeIterator(address, end_iterator)`: `reached_end_ = Internals::increment(address_)` -/
def Iter.mkEnd (o : Ops A) (a : A) : Iter A := let (a', r) := o.inc a; ⟨a', r⟩
/-- `operator++` -/
def Iter.next (o : Ops A) (it : Iter A) : Iter A := let (a', r) := o.inc it.addr; ⟨a', r⟩
/-- `operator==`: `reached_end_ == rhs.reached_end_ && address_ == rhs.address_` -/
def Iter.eq (o : Ops A) (x y : Iter A) : Bool := x.reachedEnd == y.reachedEnd && o.eq x.addr y.addr

/-- constructor; `none` = `throw exception_base("Invalid address range")` -/
def Range.make (o : Ops A) (first last : A) (onlyHosts : Bool) : Option (Range A) :=
  if o.lt last first then none else some ⟨first, last, onlyHosts⟩

/-- `AddressRange::from_mask(first, mask)` -/
def Range.fromMask (o : Ops A) (a m : A) : Option (Range A) :=
  Range.make o (o.band a m) (o.lastFromMask a m) true

/-- `contains`: `(first_ < addr && addr < last_) || addr == first_ || addr == last_` -/
def Range.contains (o : Ops A) (r : Range A) (x : A) : Bool :=
  (o.lt r.first x && o.lt x r.last) || o.eq x r.first || o.eq x r.last

def Range.begin (o : Ops A) (r : Range A) : Iter A :=
  Iter.mk' (if r.onlyHosts then (o.inc r.first).1 else r.first)

def Range.end (o : Ops A) (r : Range A) : Iter A :=
  Iter.mkEnd o (if r.onlyHosts then (o.dec r.last).1 else r.last)

/-- the `for (int i = 0; i < 3; ++i)` loop of `is_iterable`:
    `if (addr == last_) return false; Internals::increment(addr);` and `return true` after the loop -/
def iterableLoop (o : Ops A) (last : A) : Nat → A → Bool
  | 0, _ => true
  | k + 1, a => if o.eq a last then false else iterableLoop o last k (o.inc a).1

def Range.isIterable (o : Ops A) (r : Range A) : Bool :=
  if !r.onlyHosts then true else iterableLoop o r.last 3 r.first

/-- `for (it = r.begin(); it != r.end(); ++it) visit(*it);` with a step budget:
    returns the visited addresses and whether `end()` was reached within the budget. -/
def iterLoop (o : Ops A) (e : Iter A) : Nat → Iter A → List A → List A × Bool
  | 0, it, acc => (acc.reverse, Iter.eq o it e)
  | fuel + 1, it, acc =>
    if Iter.eq o it e then (acc.reverse, true) else iterLoop o e fuel (Iter.next o it) (it.addr :: acc)

def Range.iterate (o : Ops A) (r : Range A) (fuel : Nat) : List A × Bool :=
  iterLoop o (r.end o) fuel (r.begin o) []

/-! ## `operator/` (src/address_range.cpp, include/tins/address_range.h) -/

inductive Slash (A : Type) where
  | logicError                -- `throw std::logic_error("Prefix length cannot exceed …")`
  | invalidRange              -- the range constructor threw
  | ok (mask : A) (r : Range A)

/-- `IPv4Range operator/(const IPv4Address& addr, int mask)` for `mask ≥ 0` (see `slash4I` for the sign test) -/
def slash4 (a : Nat) (p : Nat) : Slash Nat :=
  if p > 32 then .logicError else
  let m := V4.fromPrefixLength p
  match Range.fromMask v4Ops a m with
  | none => .invalidRange
  | some r => .ok m r

/-- `IPv6Range operator/(const IPv6Address&, int)` (k = 16, limit 128) and
    `operator/(const HWAddress<n>&, int)` (k = 6, limit 48) -/
def slashBuf (k : Nat) (a : Buf) (p : Nat) : Slash Buf :=
  if p > 8 * k then .logicError else
  let m := B.prefixMask k p
  match Range.fromMask bufOps a m with
  | none => .invalidRange
  | some r => .ok m r

/-- the `int mask` parameter as it arrives: `if (mask < 0 || mask > 32) throw std::logic_error(…)` comes first -/
def slash4I (a : Nat) (p : Int) : Slash Nat := if p < 0 then .logicError else slash4 a p.toNat
def slashBufI (k : Nat) (a : Buf) (p : Int) : Slash Buf := if p < 0 then .logicError else slashBuf k a p.toNat

/-! ## IPv6 text (src/ipv6_address.cpp: `IPv6Address::init` = `inet_pton(AF_INET6, …)`, `to_string` = `inet_ntop(AF_INET6, …)`)

  libtins has no code of its own here: `init(const char* addr)` is `if (inet_pton(AF_INET6, addr, address_) == 0) throw
  invalid_address();` and `to_string()` is `char buffer[INET6_ADDRSTRLEN]; if (inet_ntop(AF_INET6, address_, buffer,
  sizeof(buffer)) == 0) throw invalid_address(); return buffer;`.  What follows is a reference model of the two glibc
  routines (resolv/inet_pton.c `inet_pton6`, resolv/inet_ntop.c `inet_ntop6`, glibc ≥ 2.26), statement for statement;
  the correspondence compares it with the libc the harness is linked against on every run. -/
namespace V6

/-- glibc `hex_digit_value` (−1 = `none`) -/
def hexDigitValue (ch : Nat) : Option Nat :=
  if 48 ≤ ch ∧ ch ≤ 57 then some (ch - 48)
  else if 97 ≤ ch ∧ ch ≤ 102 then some (ch - 97 + 10)
  else if 65 ≤ ch ∧ ch ≤ 70 then some (ch - 65 + 10)
  else none

/-- the two bytes `*tp++ = (val >> 8) & 0xff; *tp++ = val & 0xff;` -/
def store16 (val : Nat) : List Nat := [val / 256 % 256, val % 256]

/-- the code of `inet_pton6` after the scanning loop. `tp` = the bytes written to `tmp` so far (`tp - tmp` = its
    length, `endp - tmp` = 16), `colonp` = offset of the `::` in `tmp` if one was seen.
    ```
    if (xdigits_seen > 0) { if (tp + 2 > endp) return 0; *tp++ = val >> 8; *tp++ = val; }
    if (colonp != NULL) { if (tp == endp) return 0;  n = tp - colonp; memmove(endp - n, colonp, n);
                          memset(colonp, 0, endp - n - colonp); tp = endp; }
    if (tp != endp) return 0;
    ``` -/
def pton6Finish (seen val : Nat) (tp : List Nat) (colonp : Option Nat) : Option (List Nat) :=
  let r := if seen > 0 then (if tp.length + 2 > 16 then none else some (tp ++ store16 val)) else some tp
  match r with
  | none => none
  | some tp =>
    match colonp with
    | some c =>
      if tp.length = 16 then none        -- "::" would expand to a zero-width field
      else some (tp.take c ++ List.replicate (16 - tp.length) 0 ++ tp.drop c)
    | none => if tp.length ≠ 16 then none else some tp

/-- `while (src < src_endp) { ch = *src++; … }` of `inet_pton6`.
    Arguments: the unread text, `curtok` (the text from the start of the current token **to the end of the string** —
    `inet_pton4 (curtok, src_endp, tp)` reads all of it), `xdigits_seen`, `val`, the bytes written, `colonp`. -/
def pton6Loop : List Nat → List Nat → Nat → Nat → List Nat → Option Nat → Option (List Nat)
  | [], _, seen, val, tp, colonp => pton6Finish seen val tp colonp
  | ch :: rest, curtok, seen, val, tp, colonp =>
    match hexDigitValue ch with
    | some d =>
      if seen = 4 then none
      else
        let v := (val <<< 4) ||| d
        if v > 0xffff then none else pton6Loop rest curtok (seen + 1) v tp colonp
    | none =>
      if ch = 58 then
        -- curtok = src
        if seen = 0 then
          if colonp.isSome then none else pton6Loop rest rest seen val tp (some tp.length)
        else if rest = [] then none
        else if tp.length + 2 > 16 then none
        else pton6Loop rest rest 0 0 (tp ++ store16 val) colonp
      else if ch = 46 ∧ tp.length + 4 ≤ 16 then
        match V4.pton4Loop curtok 0 false 0 [] with
        | some q => pton6Finish 0 val (tp ++ q) colonp      -- tp += 4; xdigits_seen = 0; break
        | none => none
      else none

/-- `inet_pton6 (src, src_endp, dst)`: the empty text and a leading single ':' are refused before the loop;
    after a leading "::" the loop starts at the second colon. `none` = return value 0. -/
def pton6 : List Nat → Option (List Nat)
  | [] => none
  | c :: rest =>
    if c = 58 then
      match rest with
      | c' :: _ => if c' = 58 then pton6Loop rest rest 0 0 [] none else none
      | [] => none
    else pton6Loop (c :: rest) (c :: rest) 0 0 [] none

/-- `IPv6Address::init`: `none` = `throw invalid_address()`. The text is the C string (ends at the first NUL). -/
def parse (s : List Nat) : Option Buf := pton6 s

/-- `words[i / 2] = (src[i] << 8) | src[i + 1]` -/
def words : List Nat → List Nat
  | b0 :: b1 :: r => (b0 * 256 + b1) :: words r
  | _ => []

/-- `if (best.base == -1 || cur.len > best.len) best = cur;` (`none` = base −1; a run is (base, len)) -/
def pick (best : Option (Nat × Nat)) (cur : Nat × Nat) : Option (Nat × Nat) :=
  match best with
  | none => some cur
  | some b => if cur.2 > b.2 then some cur else some b

/-- the run-finding loop of `inet_ntop6` over `words[i..]`, then the two statements after it
    (`if (cur.base != -1) …pick…; if (best.base != -1 && best.len < 2) best.base = -1;`) -/
def scanRuns : List Nat → Nat → Option (Nat × Nat) → Option (Nat × Nat) → Option (Nat × Nat)
  | [], _, best, cur =>
    let best := match cur with | some c => pick best c | none => best
    match best with
    | some b => if b.2 < 2 then none else some b
    | none => none
  | w :: ws, i, best, cur =>
    if w = 0 then
      match cur with
      | none => scanRuns ws (i + 1) best (some (i, 1))
      | some (b, l) => scanRuns ws (i + 1) best (some (b, l + 1))
    else
      match cur with
      | some c => scanRuns ws (i + 1) (pick best c) none
      | none => scanRuns ws (i + 1) best none

def hexChar (v : Nat) : Nat := if v < 10 then 48 + v else 87 + v

/-- `sprintf(tp, "%x", words[i])` for a 16-bit value -/
def fmtHex (w : Nat) : List Nat :=
  if w < 16 then [hexChar w]
  else if w < 256 then [hexChar (w / 16), hexChar (w % 16)]
  else if w < 4096 then [hexChar (w / 256), hexChar (w / 16 % 16), hexChar (w % 16)]
  else [hexChar (w / 4096 % 16), hexChar (w / 256 % 16), hexChar (w / 16 % 16), hexChar (w % 16)]

/-- `inet_ntop4`: `sprintf(tmp, "%u.%u.%u.%u", src[0], src[1], src[2], src[3])` -/
def ntop4 : List Nat → List Nat
  | [a, b, c, d] => V4.decOctet a ++ [46] ++ V4.decOctet b ++ [46] ++ V4.decOctet c ++ [46] ++ V4.decOctet d
  | _ => []

/-- `best.base != -1 && i >= best.base && i < best.base + best.len` -/
def inBest (best : Option (Nat × Nat)) (i : Nat) : Bool :=
  match best with
  | some (b, l) => decide (b ≤ i ∧ i < b + l)
  | none => false

/-- `i == 6 && best.base == 0 && (best.len == 6 || (best.len == 5 && words[5] == 0xffff))` -/
def isEncapsulatedV4 (best : Option (Nat × Nat)) (i w5 : Nat) : Bool :=
  match best with
  | some (b, l) => decide (i = 6 ∧ b = 0 ∧ (l = 6 ∨ (l = 5 ∧ w5 = 0xffff)))
  | none => false

/-- the formatting loop of `inet_ntop6` over `words[i..]`; `out` = the characters written so far -/
def fmtLoop (src : List Nat) (best : Option (Nat × Nat)) (w5 : Nat) : List Nat → Nat → List Nat → List Nat
  | [], _, out => out
  | w :: ws, i, out =>
    if inBest best i then
      fmtLoop src best w5 ws (i + 1) (if some i = best.map (·.1) then out ++ [58] else out)
    else
      let out := if i ≠ 0 then out ++ [58] else out
      if isEncapsulatedV4 best i w5 then out ++ ntop4 (src.drop 12)       -- break
      else fmtLoop src best w5 ws (i + 1) (out ++ fmtHex w)

/-- `inet_ntop6` up to the final size check: the text (without the terminating NUL) -/
def ntop6 (src : List Nat) : List Nat :=
  let ws := words src
  let best := scanRuns ws 0 none none
  let out := fmtLoop src best (ws.getD 5 0) ws 0 []
  match best with
  | some (b, l) => if b + l = 8 then out ++ [58] else out       -- trailing run of zeros
  | none => out

/-- `IPv6Address::to_string`: `inet_ntop(AF_INET6, address_, buffer, sizeof(buffer))` with `sizeof(buffer)` =
    `INET6_ADDRSTRLEN` = 46; `if ((socklen_t)(tp - tmp) > size) { errno = ENOSPC; return NULL; }` counts the NUL.
    `none` = `throw invalid_address()`. -/
def toStringSized (size : Nat) (a : Buf) : Option (List Nat) :=
  let s := ntop6 a
  if s.length + 1 > size then none else some s

def toString (a : Buf) : Option (List Nat) := toStringSized 46 a

end V6

end Tins.Addr
