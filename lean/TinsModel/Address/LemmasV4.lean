import TinsModel.Address.LemmasRange
/- IPv4Address: the operation laws for `ip_addr_` read as the number itself, modulus 2^32. -/
namespace Tins.Addr

theorem bswap32_bytes (b0 b1 b2 b3 : Nat) (h0 : b0 < 256) (h1 : b1 < 256) (h2 : b2 < 256) (h3 : b3 < 256) :
    bswap32 (b3 * 16777216 + b2 * 65536 + b1 * 256 + b0) = b0 * 16777216 + b1 * 65536 + b2 * 256 + b3 := by
  unfold bswap32; omega

theorem bswap32_lt (x : Nat) : bswap32 x < 4294967296 := by
  unfold bswap32
  have := Nat.mod_lt x (by omega : 256 > 0)
  have := Nat.mod_lt (x / 256) (by omega : 256 > 0)
  have := Nat.mod_lt (x / 65536) (by omega : 256 > 0)
  have := Nat.mod_lt (x / 16777216) (by omega : 256 > 0)
  omega

theorem bswap32_bswap32 (x : Nat) (h : x < 4294967296) : bswap32 (bswap32 x) = x := by
  have hx : x = (x / 16777216 % 256) * 16777216 + (x / 65536 % 256) * 65536 + (x / 256 % 256) * 256 + x % 256 := by
    omega
  have e : bswap32 x = (x % 256) * 16777216 + (x / 256 % 256) * 65536 + (x / 65536 % 256) * 256 + (x / 16777216 % 256) := rfl
  rw [e, bswap32_bytes _ _ _ _ (Nat.mod_lt _ (by omega)) (Nat.mod_lt _ (by omega)) (Nat.mod_lt _ (by omega))
    (Nat.mod_lt _ (by omega))]
  exact hx.symm

namespace V4

def wf (a : Nat) : Prop := a < 4294967296

theorem inc_eq (a : Nat) (h : a < 4294967296) :
    inc a = ((a + 1) % 4294967296, (a + 1) % 4294967296 == 0) := by
  unfold inc toU32 ofU32 wrap32
  simp only [bswap32_bswap32 a h, bswap32_bswap32 _ (Nat.mod_lt _ (by omega : 4294967296 > 0))]

theorem dec_eq (a : Nat) (h : a < 4294967296) :
    dec a = ((a + 4294967295) % 4294967296, (a + 4294967295) % 4294967296 == 0) := by
  unfold dec toU32 ofU32 wrap32
  simp only [bswap32_bswap32 a h, bswap32_bswap32 _ (Nat.mod_lt _ (by omega : 4294967296 > 0))]

theorem ops_inc (a : Nat) : v4Ops.inc a = inc a := rfl
theorem ops_dec (a : Nat) : v4Ops.dec a = dec a := rfl
theorem ops_lt (a b : Nat) : v4Ops.lt a b = decide (a < b) := rfl
theorem ops_eq (a b : Nat) : v4Ops.eq a b = (a == b) := rfl

theorem inc_val (a : Nat) (h : a < 4294967296) : (inc a).1 = (a + 1) % 4294967296 := by
  rw [inc_eq a h]
theorem inc_flag (a : Nat) (h : a < 4294967296) : (inc a).2 = true ↔ a + 1 = 4294967296 := by
  rw [inc_eq a h]; simp only [beq_iff_eq]; omega
theorem dec_val (a : Nat) (h : a < 4294967296) : (dec a).1 = (a + 4294967296 - 1) % 4294967296 := by
  rw [dec_eq a h]; simp only; omega

/- Notes on kernel cost: the numeric reading is `fun a => a` (not `id`) and no proof below forces a definitional
   unfolding of `inc`/`dec`: the kernel would evaluate `_ + 4294967295` / `_ * 16777216` on an open term by
   recursion on the literal. -/
theorem lawful : Lawful v4Ops wf (fun a => a) 4294967296 where
  v_lt := fun a h => h
  v_inj := fun a b _ _ h => h
  inc_wf := by
    intro a h; rw [ops_inc, inc_eq a h]; exact Nat.mod_lt _ (by omega)
  inc_v := by
    intro a h; rw [ops_inc]; exact inc_val a h
  inc_flag := by
    intro a h; rw [ops_inc]; exact inc_flag a h
  dec_wf := by
    intro a h; rw [ops_dec, dec_eq a h]; exact Nat.mod_lt _ (by omega)
  dec_v := by
    intro a h; rw [ops_dec]; exact dec_val a h
  lt_iff := by
    intro a b _ _; rw [ops_lt]; simp
  eq_iff := by
    intro a b _ _; rw [ops_eq]; simp

end V4
end Tins.Addr
