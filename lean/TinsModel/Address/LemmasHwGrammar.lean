import TinsModel.Address.LemmasText
/- The accept set of `string_to_hw_address` is exactly the reference grammar of Spec.parseHw, with the same value. -/
namespace Tins.Addr
open Spec

/-! ### hex digits: model vs spec -/

theorem hexVal_some {c v : Nat} (h : B.hexVal c = some v) :
    isHex c = true ∧ hexDigitVal c = v ∧ v < 16 ∧ c ≠ 58 := by
  unfold B.hexVal at h
  have key : ∀ (P : Prop), (isHex c = true ↔ ((48 ≤ c ∧ c ≤ 57) ∨ (97 ≤ c ∧ c ≤ 102)) ∨ (65 ≤ c ∧ c ≤ 70)) := by
    intro _; simp [isHex]
  have hi := key True
  split at h
  · rename_i hr
    cases h
    refine ⟨hi.mpr (by omega), ?_, by omega, by omega⟩
    unfold hexDigitVal; rw [if_neg (by omega), if_neg (by omega)]; omega
  · split at h
    · rename_i _ hr
      cases h
      refine ⟨hi.mpr (by omega), ?_, by omega, by omega⟩
      unfold hexDigitVal; rw [if_neg (by omega), if_pos (by omega)]; omega
    · split at h
      · rename_i _ _ hr
        cases h
        refine ⟨hi.mpr (by omega), ?_, by omega, by omega⟩
        unfold hexDigitVal; rw [if_pos (by omega)]
      · cases h

theorem hexVal_none {c : Nat} (h : B.hexVal c = none) : isHex c = false := by
  unfold B.hexVal at h
  unfold isHex
  split at h
  · cases h
  · split at h
    · cases h
    · split at h
      · cases h
      · simp; omega

theorem hexVal_sep : B.hexVal 58 = none := by decide

set_option maxRecDepth 20000 in
theorem nibble_join : ∀ v1, v1 < 16 → ∀ v2, v2 < 16 → ((0 * 16 % 256 ||| v1) * 16 % 256 ||| v2) = v1 * 16 + v2 := by
  decide

theorem nibble_one (v : Nat) : (0 * 16 % 256 ||| v) = v := by simp

/-! ### `readGroup` step by step -/

theorem readGroup_nil (k tmp : Nat) : B.readGroup k tmp [] = some (tmp, 0, []) := by
  cases k <;> rfl

theorem readGroup_sep (k tmp : Nat) (s : List Nat) : B.readGroup (k + 1) tmp (58 :: s) = some (tmp, 0, 58 :: s) := by
  rw [B.readGroup, hexVal_sep]; simp

theorem readGroup_bad (k tmp c : Nat) (s : List Nat) (h : B.hexVal c = none) (hc : c ≠ 58) :
    B.readGroup (k + 1) tmp (c :: s) = none := by
  rw [B.readGroup, h]; simp [hc]

theorem readGroup_hex (k tmp c v : Nat) (s : List Nat) (h : B.hexVal c = some v) :
    B.readGroup (k + 1) tmp (c :: s) =
      (B.readGroup k ((tmp * 16) % 256 ||| v) s).map (fun (t, d, r) => (t, d + 1, r)) := by
  rw [B.readGroup, h]

/-! ### `split` -/

theorem split_sep (sep : Nat) (s : List Nat) : split sep (sep :: s) = [] :: split sep s := by
  simp [split]

theorem split_exists (sep : Nat) (s : List Nat) : ∃ g gs, split sep s = g :: gs := by
  induction s with
  | nil => exact ⟨[], [], rfl⟩
  | cons c s ih =>
    obtain ⟨g, gs, h⟩ := ih
    by_cases hc : c = sep
    · subst hc; exact ⟨[], split c s, split_sep c s⟩
    · exact ⟨c :: g, gs, by simp [split, hc, h]⟩

theorem split_cons (sep c : Nat) (s : List Nat) (hc : c ≠ sep) {g : List Nat} {gs : List (List Nat)}
    (h : split sep s = g :: gs) : split sep (c :: s) = (c :: g) :: gs := by
  simp [split, hc, h]

/-! ### the tail of the reference parser, with the bytes already read -/

def hwTail (n : Nat) (acc : List Nat) (gs : List (List Nat)) : Option Buf :=
  if acc.length + gs.length ≤ n ∧ gs.all groupOK = true then
    some (acc.reverse ++ gs.map groupVal ++ List.replicate (n - (acc.length + gs.length)) 0)
  else none

theorem hwTail_bad (n : Nat) (acc g : List Nat) (gs : List (List Nat)) (h : groupOK g = false) :
    hwTail n acc (g :: gs) = none := by
  unfold hwTail; simp [h]

theorem hwTail_cons (n : Nat) (acc g : List Nat) (gs : List (List Nat)) (h : groupOK g = true) :
    hwTail n acc (g :: gs) = hwTail n (groupVal g :: acc) gs := by
  unfold hwTail
  simp only [List.length_cons, List.all_cons, h, Bool.true_and, List.map_cons, List.reverse_cons,
    List.append_assoc, List.singleton_append]
  have e : acc.length + (gs.length + 1) = acc.length + 1 + gs.length := by omega
  rw [e]

theorem hwTail_full (n : Nat) (acc : List Nat) (g : List Nat) (gs : List (List Nat)) (h : acc.length = n) :
    hwTail n acc (g :: gs) = none := by
  unfold hwTail
  rw [if_neg]; simp only [List.length_cons]; omega

theorem hwTail_last (n : Nat) (acc : List Nat) (h : acc.length ≤ n) :
    hwTail n acc [] = some (acc.reverse ++ List.replicate (n - acc.length) 0) := by
  unfold hwTail; simp [h]

theorem groupOK_nil : groupOK [] = false := by decide

theorem groupOK_one (c : Nat) (h : isHex c = true) : groupOK [c] = true := by simp [groupOK, h]
theorem groupOK_two (c c2 : Nat) (h : isHex c = true) (h2 : isHex c2 = true) : groupOK [c, c2] = true := by
  simp [groupOK, h, h2]
theorem groupOK_head (c : Nat) (g : List Nat) (h : isHex c = false) : groupOK (c :: g) = false := by
  simp [groupOK, h]
theorem groupOK_second (c c2 : Nat) (g : List Nat) (h : isHex c2 = false) : groupOK (c :: c2 :: g) = false := by
  simp [groupOK, h]
theorem groupOK_long (c c2 c3 : Nat) (g : List Nat) : groupOK (c :: c2 :: c3 :: g) = false := by
  simp [groupOK]

theorem parseHwLoop_nil (n fuel : Nat) (acc : List Nat) :
    B.parseHwLoop n fuel [] acc = some (acc.reverse ++ List.replicate (n - acc.length) 0) := by
  cases fuel <;> rfl

/-- the loop of `string_to_hw_address` on a non-empty rest of the text = the reference parser on that rest -/
theorem parseHwLoop_spec (n : Nat) : ∀ (fuel : Nat) (s acc : List Nat), s ≠ [] → s.length ≤ fuel → acc.length ≤ n →
    B.parseHwLoop n fuel s acc = hwTail n acc (split 58 s) := by
  intro fuel
  induction fuel with
  | zero => intro s acc hs hl _; cases s <;> simp at hs hl
  | succ fuel ih =>
    intro s acc hs hl hacc
    cases s with
    | nil => exact absurd rfl hs
    | cons c s' =>
    obtain ⟨g, gs, hsp⟩ := split_exists 58 s'
    rw [B.parseHwLoop]
    by_cases hfull : acc.length = n
    · rw [if_pos hfull]
      obtain ⟨g0, gs0, h0⟩ := split_exists 58 (c :: s')
      rw [h0, hwTail_full n acc g0 gs0 hfull]
    · rw [if_neg hfull]
      have hlt : acc.length + 1 ≤ n := by omega
      cases hv : B.hexVal c with
      | none =>
        have hnh := hexVal_none hv
        by_cases hc : c = 58
        · subst hc
          rw [readGroup_sep, split_sep, hwTail_bad n acc [] _ groupOK_nil]
          simp
        · rw [readGroup_bad 1 0 c s' hv hc, split_cons 58 c s' hc hsp, hwTail_bad n acc _ _ (groupOK_head c g hnh)]
      | some v1 =>
        obtain ⟨hh1, hd1, hv1, hc1⟩ := hexVal_some hv
        rw [readGroup_hex 1 0 c v1 s' hv, nibble_one]
        cases s' with
        | nil =>
          rw [readGroup_nil]
          simp only [Option.map_some, Nat.zero_add, Nat.succ_ne_zero, if_false]
          rw [parseHwLoop_nil]
          have : split 58 [c] = [[c]] := by simp [split, hc1]
          rw [this, hwTail_cons n acc [c] [] (groupOK_one c hh1), hwTail_last n _ (by simpa using hlt)]
          simp [groupVal, hd1]
        | cons c2 s'' =>
          obtain ⟨g2, gs2, hsp2⟩ := split_exists 58 s''
          cases hv2 : B.hexVal c2 with
          | none =>
            have hnh2 := hexVal_none hv2
            by_cases hc2 : c2 = 58
            · subst hc2
              rw [readGroup_sep]
              simp only [Option.map_some, Nat.zero_add, Nat.succ_ne_zero, if_false, true_and]
              have hs1 : split 58 (c :: 58 :: s'') = [c] :: split 58 s'' := by
                rw [split_cons 58 c _ hc1 (split_sep 58 s'')]
              rw [hs1, hwTail_cons n acc [c] _ (groupOK_one c hh1)]
              have hgv : groupVal [c] = v1 := by simp [groupVal, hd1]
              rw [hgv]
              cases s'' with
              | nil =>
                simp only [ne_eq, not_true_eq_false, if_false]
                have : split 58 ([] : List Nat) = [[]] := rfl
                rw [this, hwTail_bad n _ [] [] groupOK_nil]
              | cons c3 s3 =>
                simp only [ne_eq, reduceCtorEq, not_false_eq_true, if_true]
                exact ih (c3 :: s3) (v1 :: acc) (by simp) (by simp at hl ⊢; omega) (by simpa using hlt)
            · rw [readGroup_bad 0 v1 c2 s'' hv2 hc2]
              simp only [Option.map_none]
              rw [split_cons 58 c _ hc1 (split_cons 58 c2 s'' hc2 hsp2),
                hwTail_bad n acc _ _ (groupOK_second c c2 g2 hnh2)]
          | some v2 =>
            obtain ⟨hh2, hd2, hv2', hc2⟩ := hexVal_some hv2
            rw [readGroup_hex 0 v1 c2 v2 s'' hv2]
            have hj := nibble_join v1 hv1 v2 hv2'
            rw [nibble_one] at hj
            rw [hj]
            simp only [B.readGroup, Option.map_some, Nat.zero_add]
            have hgv : groupVal [c, c2] = v1 * 16 + v2 := by simp [groupVal, hd1, hd2]
            cases s'' with
            | nil =>
              simp only [Nat.succ_ne_zero, if_false]
              rw [parseHwLoop_nil]
              have : split 58 [c, c2] = [[c, c2]] := by simp [split, hc1, hc2]
              rw [this, hwTail_cons n acc [c, c2] [] (groupOK_two c c2 hh1 hh2), hwTail_last n _ (by simpa using hlt), hgv]
            | cons c3 s3 =>
              simp only [Nat.succ_ne_zero, if_false]
              by_cases hc3 : c3 = 58
              · subst hc3
                have hs1 : split 58 (c :: c2 :: 58 :: s3) = [c, c2] :: split 58 s3 := by
                  rw [split_cons 58 c _ hc1 (split_cons 58 c2 _ hc2 (split_sep 58 s3))]
                rw [hs1, hwTail_cons n acc [c, c2] _ (groupOK_two c c2 hh1 hh2), hgv]
                cases s3 with
                | nil =>
                  simp only [ne_eq, not_true_eq_false, and_false, if_false]
                  have : split 58 ([] : List Nat) = [[]] := rfl
                  rw [this, hwTail_bad n _ [] [] groupOK_nil]
                | cons c4 s4 =>
                  simp only [ne_eq, reduceCtorEq, not_false_eq_true, and_self, if_true]
                  exact ih (c4 :: s4) (_ :: acc) (by simp) (by simp at hl ⊢; omega) (by simpa using hlt)
              · simp only [hc3, false_and, if_false]
                obtain ⟨g3, gs3, hsp3⟩ := split_exists 58 s3
                rw [split_cons 58 c _ hc1 (split_cons 58 c2 _ hc2 (split_cons 58 c3 s3 hc3 hsp3)),
                  hwTail_bad n acc _ _ (groupOK_long c c2 c3 g3)]

/-- **hw_accept_iff**: for every text and every address size, `string_to_hw_address` accepts exactly the texts of
    the reference grammar and computes the same bytes -/
theorem parseHw_eq_spec (n : Nat) (s : List Nat) : B.parseHw n s = Spec.parseHw n s := by
  unfold B.parseHw Spec.parseHw
  by_cases hs : s = []
  · subst hs; simp [B.parseHwLoop]
  · rw [if_neg hs, parseHwLoop_spec n _ s [] hs (by omega) (by simp)]
    unfold hwTail
    simp

end Tins.Addr
