/-
  Specification of the address types (property C16), written from the property text — not from libtins:
  an address of `n` bytes *is* the number `val` its bytes denote (most significant first); order, equality,
  masks, ranges and iteration are the ones of that number. Text forms: dotted decimal quad, colon-separated
  hex pairs.  Everything here is executable and is used verbatim as the run-time oracle on the implementation's
  output.
-/
namespace Tins.Addr.Spec

/-- the number denoted by the bytes, most significant first -/
def val (bs : List Nat) : Nat := bs.foldl (fun acc b => acc * 256 + b) 0

/-- the `n` bytes denoting `v` (mod 256^n): least significant byte peeled off `n` times -/
def bytesOfAux : Nat → Nat → List Nat → List Nat
  | 0, _, acc => acc
  | n + 1, v, acc => bytesOfAux n (v / 256) (v % 256 :: acc)
def bytesOf (n v : Nat) : List Nat := bytesOfAux n v []

/-- number of addresses of an `n`-byte family -/
def card (n : Nat) : Nat := 256 ^ n

/-! ### ranges -/

/-- ends of the range derived from address `a` and mask `m` (both as numbers, `n` bytes) -/
def maskFirst (a m : Nat) : Nat := Nat.land a m
def maskLast (n a m : Nat) : Nat := Nat.lor a (card n - 1 - m)

/-- the mask of prefix length `p` -/
def prefixMask (n p : Nat) : Nat := card n - 2 ^ (8 * n - p)

/-- ends of the range `a / p`: the aligned block of `2^(8n-p)` addresses containing `a` -/
def prefixFirst (n a p : Nat) : Nat := a - a % 2 ^ (8 * n - p)
def prefixLast (n a p : Nat) : Nat := prefixFirst n a p + 2 ^ (8 * n - p) - 1

def contains (first last x : Nat) : Bool := decide (first ≤ x ∧ x ≤ last)

/-- the addresses an iteration must visit, in order: all of `[first, last]`, or the hosts `[first+1, last-1]` -/
def iterStart (first : Nat) (onlyHosts : Bool) : Nat := if onlyHosts then first + 1 else first
def iterCount (first last : Nat) (onlyHosts : Bool) : Nat :=
  if onlyHosts then last - first - 1 else last + 1 - first
def expected (first last : Nat) (onlyHosts : Bool) : List Nat :=
  List.range' (iterStart first onlyHosts) (iterCount first last onlyHosts)

/-- what `is_iterable` has to answer: ranges that are not host-only always are; host-only ranges with at most two
    addresses are not, with at least four they are (three: either answer, the documentation is ambiguous).
    `none` = unspecified. -/
def iterableSpec (first last : Nat) (onlyHosts : Bool) : Option Bool :=
  if !onlyHosts then some true
  else if last - first ≤ 1 then some false
  else if last - first ≥ 3 then some true
  else none

/-! ### text forms -/

def isHex (c : Nat) : Bool := (48 ≤ c && c ≤ 57) || (97 ≤ c && c ≤ 102) || (65 ≤ c && c ≤ 70)
def hexDigitVal (c : Nat) : Nat := if c ≤ 57 then c - 48 else if c ≤ 70 then c - 55 else c - 87

/-- split at every separator; always at least one (possibly empty) group -/
def split (sep : Nat) : List Nat → List (List Nat)
  | [] => [[]]
  | c :: s =>
    if c = sep then [] :: split sep s
    else match split sep s with
      | [] => [[c]]
      | g :: gs => (c :: g) :: gs

def groupOK (g : List Nat) : Bool := (g.length == 1 || g.length == 2) && g.all isHex
def groupVal (g : List Nat) : Nat := g.foldl (fun acc c => acc * 16 + hexDigitVal c) 0

/-- Hardware address text: at most `n` groups of one or two hex digits separated by single ':'; fewer than `n` groups
    denote the address padded with zero bytes (libtins documents and tests short addresses); the empty text is the
    zero address. Everything else is not an address. -/
def parseHw (n : Nat) (s : List Nat) : Option (List Nat) :=
  if s = [] then some (List.replicate n 0) else
  let gs := split 58 s
  if gs.length ≤ n ∧ gs.all groupOK then some (gs.map groupVal ++ List.replicate (n - gs.length) 0) else none

def lowerHex (v : Nat) : Nat := if v < 10 then 48 + v else 87 + v

def intercalate (sep : Nat) : List (List Nat) → List Nat
  | [] => []
  | [g] => g
  | g :: gs => g ++ sep :: intercalate sep gs

def fmtHw (a : List Nat) : List Nat := intercalate 58 (a.map (fun b => [lowerHex (b / 16), lowerHex (b % 16)]))

def isDigit (c : Nat) : Bool := 48 ≤ c && c ≤ 57
def decVal (g : List Nat) : Nat := g.foldl (fun acc c => acc * 10 + (c - 48)) 0
/-- one to three digits, no leading zero except "0" itself, value at most 255 -/
def octetOK (g : List Nat) : Bool :=
  (1 ≤ g.length && g.length ≤ 3) && g.all isDigit && (g.length == 1 || g.head? != some 48) && decVal g ≤ 255

/-- IPv4 text: exactly four decimal octets separated by single '.' (strict dotted quad, as `inet_pton`) -/
def parse4 (s : List Nat) : Option (List Nat) :=
  let gs := split 46 s
  if gs.length = 4 ∧ gs.all octetOK then some (gs.map decVal) else none

def decimal (n : Nat) : List Nat := (Nat.toDigits 10 n).map (fun c => c.toNat)
def fmt4 (a : List Nat) : List Nat := intercalate 46 (a.map decimal)

end Tins.Addr.Spec
