/-
  Specification of the address types (property C16), written from the property text — not from libtins:
  an address of `n` bytes *is* the number `val` its bytes denote (most significant first); order, equality,
  masks, ranges and iteration are the ones of that number. Text forms: dotted decimal quad, colon-separated
  hex pairs.  Everything here is executable and is used verbatim as the run-time oracle on the implementation's
  output.
-/
namespace Tins.Addr.Spec

/-- the number denoted by the bytes, most significant first -/
def val (bs : List Nat) : Nat := bs.foldl (fun acc b => acc * 256 + b) 0

/-- the `n` bytes denoting `v` (mod 256^n): least significant byte peeled off `n` times -/
def bytesOfAux : Nat → Nat → List Nat → List Nat
  | 0, _, acc => acc
  | n + 1, v, acc => bytesOfAux n (v / 256) (v % 256 :: acc)
def bytesOf (n v : Nat) : List Nat := bytesOfAux n v []

/-- number of addresses of an `n`-byte family -/
def card (n : Nat) : Nat := 256 ^ n

/-! ### ranges -/

/-- ends of the range derived from address `a` and mask `m` (both as numbers, `n` bytes) -/
def maskFirst (a m : Nat) : Nat := Nat.land a m
def maskLast (n a m : Nat) : Nat := Nat.lor a (card n - 1 - m)

/-- the mask of prefix length `p` -/
def prefixMask (n p : Nat) : Nat := card n - 2 ^ (8 * n - p)

/-- ends of the range `a / p`: the aligned block of `2^(8n-p)` addresses containing `a` -/
def prefixFirst (n a p : Nat) : Nat := a - a % 2 ^ (8 * n - p)
def prefixLast (n a p : Nat) : Nat := prefixFirst n a p + 2 ^ (8 * n - p) - 1

def contains (first last x : Nat) : Bool := decide (first ≤ x ∧ x ≤ last)

/-- the addresses an iteration must visit, in order: all of `[first, last]`, or the hosts `[first+1, last-1]` -/
def iterStart (first : Nat) (onlyHosts : Bool) : Nat := if onlyHosts then first + 1 else first
def iterCount (first last : Nat) (onlyHosts : Bool) : Nat :=
  if onlyHosts then last - first - 1 else last + 1 - first
def expected (first last : Nat) (onlyHosts : Bool) : List Nat :=
  List.range' (iterStart first onlyHosts) (iterCount first last onlyHosts)

/-- what `is_iterable` has to answer: ranges that are not host-only always are; host-only ranges with at most two
    addresses are not, with at least four they are (three: either answer, the documentation is ambiguous).
    `none` = unspecified. -/
def iterableSpec (first last : Nat) (onlyHosts : Bool) : Option Bool :=
  if !onlyHosts then some true
  else if last - first ≤ 1 then some false
  else if last - first ≥ 3 then some true
  else none

/-! ### text forms -/

def isHex (c : Nat) : Bool := (48 ≤ c && c ≤ 57) || (97 ≤ c && c ≤ 102) || (65 ≤ c && c ≤ 70)
def hexDigitVal (c : Nat) : Nat := if c ≤ 57 then c - 48 else if c ≤ 70 then c - 55 else c - 87

/-- split at every separator; always at least one (possibly empty) group -/
def split (sep : Nat) : List Nat → List (List Nat)
  | [] => [[]]
  | c :: s =>
    if c = sep then [] :: split sep s
    else match split sep s with
      | [] => [[c]]
      | g :: gs => (c :: g) :: gs

def groupOK (g : List Nat) : Bool := (g.length == 1 || g.length == 2) && g.all isHex
def groupVal (g : List Nat) : Nat := g.foldl (fun acc c => acc * 16 + hexDigitVal c) 0

/-- Hardware address text: at most `n` groups of one or two hex digits separated by single ':'; fewer than `n` groups
    denote the address padded with zero bytes (libtins documents and tests short addresses); the empty text is the
    zero address. Everything else is not an address. -/
def parseHw (n : Nat) (s : List Nat) : Option (List Nat) :=
  if s = [] then some (List.replicate n 0) else
  let gs := split 58 s
  if gs.length ≤ n ∧ gs.all groupOK then some (gs.map groupVal ++ List.replicate (n - gs.length) 0) else none

def lowerHex (v : Nat) : Nat := if v < 10 then 48 + v else 87 + v

def intercalate (sep : Nat) : List (List Nat) → List Nat
  | [] => []
  | [g] => g
  | g :: gs => g ++ sep :: intercalate sep gs

def fmtHw (a : List Nat) : List Nat := intercalate 58 (a.map (fun b => [lowerHex (b / 16), lowerHex (b % 16)]))

def isDigit (c : Nat) : Bool := 48 ≤ c && c ≤ 57
def decVal (g : List Nat) : Nat := g.foldl (fun acc c => acc * 10 + (c - 48)) 0
/-- one to three digits, no leading zero except "0" itself, value at most 255 -/
def octetOK (g : List Nat) : Bool :=
  (1 ≤ g.length && g.length ≤ 3) && g.all isDigit && (g.length == 1 || g.head? != some 48) && decVal g ≤ 255

/-- IPv4 text: exactly four decimal octets separated by single '.' (strict dotted quad, as `inet_pton`) -/
def parse4 (s : List Nat) : Option (List Nat) :=
  let gs := split 46 s
  if gs.length = 4 ∧ gs.all octetOK then some (gs.map decVal) else none

def decimal (n : Nat) : List Nat := (Nat.toDigits 10 n).map (fun c => c.toNat)
def fmt4 (a : List Nat) : List Nat := intercalate 46 (a.map decimal)

/-! ### IPv6 text (RFC 4291 §2.2 for reading, RFC 5952 §4/§5 for writing) — written from the RFCs, not from libc

  RFC 4291 §2.2: (1) `x:x:x:x:x:x:x:x`, each `x` one to four hex digits; (2) "::" may appear once and stands for one or
  more groups of 16 zero bits, also at the start or the end; (3) the last 32 bits may be written as a dotted quad
  `x:x:x:x:x:x:d.d.d.d` (also combined with "::").  Strict: nothing else is an address (no zone id, no prefix length,
  no blanks, no empty group, no group longer than four digits, no single ':' at either end). -/

/-- one 16-bit piece: one to four hex digits -/
def hexGroupOK (g : List Nat) : Bool := (1 ≤ g.length && g.length ≤ 4) && g.all isHex
/-- its two bytes -/
def groupBytes (g : List Nat) : List Nat := [groupVal g / 256, groupVal g % 256]

/-- the colon-separated pieces of a text; the empty text has no piece -/
def pieces (t : List Nat) : List (List Nat) := if t = [] then [] else split 58 t

/-- bytes of a list of hex pieces (form 1) -/
def hexPieces : List (List Nat) → Option (List Nat)
  | [] => some []
  | g :: gs => if hexGroupOK g then (hexPieces gs).map (groupBytes g ++ ·) else none

/-- the same, but the last piece may be a dotted quad (form 3) -/
def tailPieces : List (List Nat) → Option (List Nat)
  | [] => some []
  | [g] => if hexGroupOK g then some (groupBytes g) else parse4 g
  | g :: gs => if hexGroupOK g then (tailPieces gs).map (groupBytes g ++ ·) else none

/-- the first "::" of a text: what stands before it and what stands after it -/
def findDc : List Nat → Option (List Nat × List Nat)
  | [] => none
  | [_] => none
  | c :: c' :: r =>
    if c = 58 ∧ c' = 58 then some ([], r)
    else (findDc (c' :: r)).map (fun (l, r') => (c :: l, r'))

/-- IPv6 text → 16 bytes.  Without "::" the pieces must give exactly 128 bits; with "::" the pieces on its two sides
    give at most 112 bits and the gap is filled with zero bits. A second "::" leaves an empty piece on the right side
    (or a piece list starting with ':'), which no piece form accepts. -/
def parse6 (s : List Nat) : Option (List Nat) :=
  match findDc s with
  | none =>
    match tailPieces (pieces s) with
    | some bs => if bs.length = 16 then some bs else none
    | none => none
  | some (l, r) =>
    match hexPieces (pieces l), tailPieces (pieces r) with
    | some lb, some rb =>
      if lb.length + rb.length ≤ 14 then some (lb ++ List.replicate (16 - (lb.length + rb.length)) 0 ++ rb) else none
    | _, _ => none

/-- the eight 16-bit groups of a 16-byte address -/
def groups6 : List Nat → List Nat
  | b0 :: b1 :: r => (b0 * 256 + b1) :: groups6 r
  | _ => []

/-- RFC 5952 §4.1 / §4.3: the four hex digits of a group in lower case with leading zeros removed; a zero group is "0" -/
def hexNumeral (v : Nat) : List Nat :=
  let ds := [v / 4096 % 16, v / 256 % 16, v / 16 % 16, v % 16].dropWhile (· == 0)
  (if ds = [] then [0] else ds).map lowerHex

/-- groups `i .. i+l-1` exist and are all zero -/
def zeroRun (gs : List Nat) (i l : Nat) : Bool := decide (i + l ≤ gs.length) && ((gs.drop i).take l).all (· == 0)

/-- RFC 5952 §4.2: the run of zero groups that "::" replaces — at least two groups (§4.2.2), the longest one (§4.2.3),
    the first one when several are longest (§4.2.3).  All candidate windows in order of start, then length; a later
    candidate replaces the choice only when strictly longer. -/
def bestRun (gs : List Nat) : Option (Nat × Nat) :=
  let cands := (List.range 8).flatMap (fun i =>
    (List.range 9).filterMap (fun l => if 2 ≤ l ∧ zeroRun gs i l = true then some (i, l) else none))
  cands.foldl (fun best c => match best with
    | none => some c
    | some b => if c.2 > b.2 then some c else some b) none

/-- RFC 5952 §5 (mixed notation for the well-known embedded-IPv4 forms) as glibc applies it:
    IPv4-mapped `::ffff:a.b.c.d` always; IPv4-compatible `::a.b.c.d` when the embedded address is at least 0.1.0.0
    (so `::1` and `::` stay hex). `some prefix` = the text in front of the dotted quad. -/
def mixedPrefix (gs : List Nat) : Option (List Nat) :=
  if gs.take 5 = [0, 0, 0, 0, 0] ∧ gs.getD 5 0 = 0xffff then some [58, 58, 102, 102, 102, 102, 58]
  else if gs.take 6 = [0, 0, 0, 0, 0, 0] ∧ gs.getD 6 0 ≠ 0 then some [58, 58]
  else none

/-- the canonical text of a 16-byte address -/
def fmt6 (a : List Nat) : List Nat :=
  let gs := groups6 a
  match mixedPrefix gs with
  | some p => p ++ fmt4 (a.drop 12)
  | none =>
    match bestRun gs with
    | none => intercalate 58 (gs.map hexNumeral)
    | some (i, l) =>
      intercalate 58 ((gs.take i).map hexNumeral) ++ [58, 58] ++ intercalate 58 ((gs.drop (i + l)).map hexNumeral)

end Tins.Addr.Spec
