import TinsModel.Address.LemmasV4Grammar
/- IPv6 text round trip: the reference model of glibc `inet_pton6` reads back what the reference model of
   `inet_ntop6` prints, for every address (structural proof; the only finite enumeration is over the 2^8 zero
   patterns of the eight 16-bit words, to classify the result of the run finder). -/
namespace Tins.Addr
namespace V6RT   -- helper names of this file (scanP, shl4_or, …) also exist in the sibling lemma files

/-! ### hex digits and single steps of the `inet_pton6` loop -/

theorem hexDigitValue_hexChar : ∀ d, d < 16 → V6.hexDigitValue (V6.hexChar d) = some d := by decide

theorem hexChar_ne_58 (d : Nat) : V6.hexChar d ≠ 58 := by
  unfold V6.hexChar; split <;> omega

theorem shl4_or (v d : Nat) (hd : d < 16) : (v <<< 4) ||| d = v * 16 + d := by
  rw [← Nat.shiftLeft_add_eq_or_of_lt (i := 4) hd v, Nat.shiftLeft_eq]

theorem step_hex (d : Nat) (hd : d < 16) (rest ct : List Nat) (seen val : Nat) (tp : List Nat) (cp : Option Nat) :
    V6.pton6Loop (V6.hexChar d :: rest) ct seen val tp cp =
      if seen = 4 then none else if val * 16 + d > 65535 then none
      else V6.pton6Loop rest ct (seen + 1) (val * 16 + d) tp cp := by
  rw [V6.pton6Loop]
  simp only [hexDigitValue_hexChar d hd, shl4_or val d hd]

theorem step_colon1 (rest ct : List Nat) (k val : Nat) (tp : List Nat) (cp : Option Nat) :
    V6.pton6Loop (58 :: rest) ct (k + 1) val tp cp =
      if rest = [] then none else if tp.length + 2 > 16 then none
      else V6.pton6Loop rest rest 0 0 (tp ++ V6.store16 val) cp := by
  rw [V6.pton6Loop]
  have : V6.hexDigitValue 58 = none := by decide
  simp [this]

theorem step_colon0 (rest ct : List Nat) (val : Nat) (tp : List Nat) :
    V6.pton6Loop (58 :: rest) ct 0 val tp none = V6.pton6Loop rest rest 0 val tp (some tp.length) := by
  rw [V6.pton6Loop]
  have : V6.hexDigitValue 58 = none := by decide
  simp [this]

theorem step_dot (rest ct : List Nat) (seen val : Nat) (tp : List Nat) (cp : Option Nat) (h : tp.length + 4 ≤ 16)
    (q : List Nat) (hq : V4.pton4Loop ct 0 false 0 [] = some q) :
    V6.pton6Loop (46 :: rest) ct seen val tp cp = V6.pton6Finish 0 val (tp ++ q) cp := by
  rw [V6.pton6Loop]
  have : V6.hexDigitValue 46 = none := by decide
  simp [this, h, hq]

/-! ### one printed group -/

/-- the loop reads a printed 16-bit group completely, whatever follows -/
theorem read_group (w : Nat) (hw : w < 65536) : ∃ k, ∀ (rest ct tp : List Nat) (cp : Option Nat),
    V6.pton6Loop (V6.fmtHex w ++ rest) ct 0 0 tp cp = V6.pton6Loop rest ct (k + 1) w tp cp := by
  unfold V6.fmtHex
  by_cases h1 : w < 16
  · refine ⟨0, fun rest ct tp cp => ?_⟩
    simp only [h1, if_true, List.cons_append, List.nil_append]
    rw [step_hex w h1]
    simp only [Nat.zero_mul, Nat.zero_add]
    rw [if_neg (by omega), if_neg (by omega)]
  · by_cases h2 : w < 256
    · refine ⟨1, fun rest ct tp cp => ?_⟩
      simp only [h1, h2, if_true, if_false, List.cons_append, List.nil_append]
      rw [step_hex (w / 16) (by omega), if_neg (by omega), if_neg (by omega),
        step_hex (w % 16) (by omega), if_neg (by omega), if_neg (by omega)]
      have e : (0 * 16 + w / 16) * 16 + w % 16 = w := by omega
      rw [e]
    · by_cases h3 : w < 4096
      · refine ⟨2, fun rest ct tp cp => ?_⟩
        simp only [h1, h2, h3, if_true, if_false, List.cons_append, List.nil_append]
        rw [step_hex (w / 256) (by omega), if_neg (by omega), if_neg (by omega),
          step_hex (w / 16 % 16) (by omega), if_neg (by omega), if_neg (by omega),
          step_hex (w % 16) (by omega), if_neg (by omega), if_neg (by omega)]
        have e : ((0 * 16 + w / 256) * 16 + w / 16 % 16) * 16 + w % 16 = w := by omega
        rw [e]
      · refine ⟨3, fun rest ct tp cp => ?_⟩
        simp only [h1, h2, h3, if_false, List.cons_append, List.nil_append]
        rw [step_hex (w / 4096 % 16) (by omega), if_neg (by omega), if_neg (by omega),
          step_hex (w / 256 % 16) (by omega), if_neg (by omega), if_neg (by omega),
          step_hex (w / 16 % 16) (by omega), if_neg (by omega), if_neg (by omega),
          step_hex (w % 16) (by omega), if_neg (by omega), if_neg (by omega)]
        have e : (((0 * 16 + w / 4096 % 16) * 16 + w / 256 % 16) * 16 + w / 16 % 16) * 16 + w % 16 = w := by omega
        rw [e]

theorem fmtHex_cons (w : Nat) : ∃ d t, V6.fmtHex w = V6.hexChar d :: t := by
  unfold V6.fmtHex
  split
  · exact ⟨_, _, rfl⟩
  · split
    · exact ⟨_, _, rfl⟩
    · split <;> exact ⟨_, _, rfl⟩

theorem fmtHex_append_ne_nil (w : Nat) (r : List Nat) : V6.fmtHex w ++ r ≠ [] := by
  obtain ⟨d, t, e⟩ := fmtHex_cons w
  rw [e]; simp

/-- a group followed by ':' and more text -/
theorem group_colon (w : Nat) (hw : w < 65536) (rest ct tp : List Nat) (cp : Option Nat) (hr : rest ≠ [])
    (hl : tp.length + 2 ≤ 16) :
    V6.pton6Loop (V6.fmtHex w ++ 58 :: rest) ct 0 0 tp cp = V6.pton6Loop rest rest 0 0 (tp ++ V6.store16 w) cp := by
  obtain ⟨k, hk⟩ := read_group w hw
  rw [hk, step_colon1, if_neg hr, if_neg (by omega)]

/-- the last group, at the end of the text -/
theorem group_end (w : Nat) (hw : w < 65536) (ct tp : List Nat) (cp : Option Nat) (hl : tp.length + 2 ≤ 16) :
    V6.pton6Loop (V6.fmtHex w) ct 0 0 tp cp = V6.pton6Finish 0 0 (tp ++ V6.store16 w) cp := by
  obtain ⟨k, hk⟩ := read_group w hw
  have := hk [] ct tp cp
  rw [List.append_nil] at this
  rw [this, V6.pton6Loop]
  unfold V6.pton6Finish
  have : ¬ tp.length + 2 > 16 := by omega
  simp [this]

/-- entry: a text that starts with a printed group goes straight into the loop -/
theorem pton6_group (w : Nat) (rest : List Nat) :
    V6.pton6 (V6.fmtHex w ++ rest) = V6.pton6Loop (V6.fmtHex w ++ rest) (V6.fmtHex w ++ rest) 0 0 [] none := by
  obtain ⟨d, t, e⟩ := fmtHex_cons w
  rw [e, List.cons_append]
  simp only [V6.pton6, hexChar_ne_58 d, if_false]

/-- entry: a text that starts with "::" -/
theorem pton6_cc (rest : List Nat) :
    V6.pton6 (58 :: 58 :: rest) = V6.pton6Loop rest rest 0 0 [] (some 0) := by
  simp only [V6.pton6, if_true]
  rw [step_colon0]; rfl

/-! ### lists of groups -/

/-- groups, each followed by ':' -/
def groupC : List Nat → List Nat
  | [] => []
  | w :: ws => V6.fmtHex w ++ 58 :: groupC ws

/-- groups joined by ':' -/
def joinHex : List Nat → List Nat
  | [] => []
  | [w] => V6.fmtHex w
  | w :: w' :: ws => V6.fmtHex w ++ 58 :: joinHex (w' :: ws)

/-- the bytes of a list of 16-bit words -/
def bytes : List Nat → List Nat
  | [] => []
  | w :: ws => V6.store16 w ++ bytes ws

theorem bytes_length (ws : List Nat) : (bytes ws).length = 2 * ws.length := by
  induction ws with
  | nil => rfl
  | cons w ws ih => simp only [bytes, V6.store16, List.length_append, List.length_cons, List.length_nil, ih]; omega

theorem joinHex_cons_ne_nil (w : Nat) (ws : List Nat) : joinHex (w :: ws) ≠ [] := by
  cases ws with
  | nil => have := fmtHex_append_ne_nil w []; simpa [joinHex] using this
  | cons w' ws => exact fmtHex_append_ne_nil w _

theorem loop_groupC : ∀ (ws : List Nat) (rest tp : List Nat) (cp : Option Nat), (∀ w ∈ ws, w < 65536) → rest ≠ [] →
    tp.length + 2 * ws.length ≤ 16 →
    V6.pton6Loop (groupC ws ++ rest) (groupC ws ++ rest) 0 0 tp cp = V6.pton6Loop rest rest 0 0 (tp ++ bytes ws) cp
  | [], rest, tp, cp, _, _, _ => by simp [groupC, bytes]
  | w :: ws, rest, tp, cp, hw, hr, hl => by
    have hw0 : w < 65536 := hw w List.mem_cons_self
    have hws : ∀ x ∈ ws, x < 65536 := fun x hx => hw x (List.mem_cons_of_mem _ hx)
    simp only [List.length_cons] at hl
    have hne : groupC ws ++ rest ≠ [] := by
      cases ws with
      | nil => simpa [groupC] using hr
      | cons w' ws' => simp only [groupC, List.append_assoc]; exact fmtHex_append_ne_nil w' _
    simp only [groupC, List.append_assoc, List.cons_append]
    rw [group_colon w hw0 _ _ tp cp hne (by omega),
      loop_groupC ws rest (tp ++ V6.store16 w) cp hws hr (by simp [V6.store16]; omega)]
    simp only [bytes, List.append_assoc]

theorem loop_joinHex : ∀ (ws : List Nat) (ct tp : List Nat) (cp : Option Nat), (∀ w ∈ ws, w < 65536) →
    tp.length + 2 * ws.length ≤ 16 →
    V6.pton6Loop (joinHex ws) ct 0 0 tp cp = V6.pton6Finish 0 0 (tp ++ bytes ws) cp
  | [], ct, tp, cp, _, _ => by simp [joinHex, bytes, V6.pton6Loop]
  | [w], ct, tp, cp, hw, hl => by
    have hw0 : w < 65536 := hw w List.mem_cons_self
    simp only [List.length_cons, List.length_nil] at hl
    simp only [joinHex, bytes, List.append_nil]
    exact group_end w hw0 ct tp cp (by omega)
  | w :: w' :: ws, ct, tp, cp, hw, hl => by
    have hw0 : w < 65536 := hw w List.mem_cons_self
    have hws : ∀ x ∈ w' :: ws, x < 65536 := fun x hx => hw x (List.mem_cons_of_mem _ hx)
    simp only [List.length_cons] at hl
    rw [joinHex, group_colon w hw0 _ _ tp cp (joinHex_cons_ne_nil w' ws) (by omega),
      loop_joinHex (w' :: ws) _ (tp ++ V6.store16 w) cp hws (by simp [V6.store16]; omega)]
    simp only [bytes, List.append_assoc]

/-- after the groups in front of the run: the second ':' of "::", the groups after the run, and the expansion -/
theorem loop_tail (post ct tp : List Nat) (hw : ∀ w ∈ post, w < 65536) (hl : tp.length + 2 * post.length < 16) :
    V6.pton6Loop (58 :: joinHex post) ct 0 0 tp none =
      some (tp ++ List.replicate (16 - (tp.length + 2 * post.length)) 0 ++ bytes post) := by
  rw [step_colon0, loop_joinHex post _ tp _ hw (by omega)]
  unfold V6.pton6Finish
  have hlen : (tp ++ bytes post).length = tp.length + 2 * post.length := by simp [bytes_length]
  have hne : ¬ tp.length + 2 * post.length = 16 := by omega
  simp [hlen, hne]

/-- no "::" -/
theorem pton6_plain (w : Nat) (ws : List Nat) (hw : ∀ x ∈ w :: ws, x < 65536) (hl : ws.length = 7) :
    V6.pton6 (joinHex (w :: ws)) = some (bytes (w :: ws)) := by
  have e : joinHex (w :: ws) = V6.fmtHex w ++ (58 :: joinHex ws) := by
    cases ws with
    | nil => simp at hl
    | cons w' ws' => rfl
  rw [e, pton6_group, ← e, loop_joinHex (w :: ws) _ [] none hw (by simp [hl])]
  unfold V6.pton6Finish
  have hlen : (bytes (w :: ws)).length = 16 := by simp [bytes_length, hl]
  simp [hlen]

/-- groups, "::", groups -/
theorem pton6_mid (w : Nat) (pre post : List Nat) (hw : ∀ x ∈ w :: pre, x < 65536) (hp : ∀ x ∈ post, x < 65536)
    (hl : (w :: pre).length + post.length < 8) :
    V6.pton6 (groupC (w :: pre) ++ 58 :: joinHex post) =
      some (bytes (w :: pre) ++ List.replicate (16 - 2 * ((w :: pre).length + post.length)) 0 ++ bytes post) := by
  have e : groupC (w :: pre) ++ 58 :: joinHex post = V6.fmtHex w ++ (58 :: groupC pre ++ 58 :: joinHex post) := by
    simp [groupC]
  rw [e, pton6_group, ← e, loop_groupC (w :: pre) _ [] none hw (by simp) (by simp at hl ⊢; omega),
    loop_tail post _ _ hp (by simp [bytes_length] at hl ⊢; omega)]
  simp only [List.nil_append, bytes_length]
  have e2 : 16 - (2 * (w :: pre).length + 2 * post.length) = 16 - 2 * ((w :: pre).length + post.length) := by omega
  rw [e2]

/-- "::", groups -/
theorem pton6_front (post : List Nat) (hp : ∀ x ∈ post, x < 65536) (hl : post.length < 8) :
    V6.pton6 (58 :: 58 :: joinHex post) = some (List.replicate (16 - 2 * post.length) 0 ++ bytes post) := by
  simp only [V6.pton6, if_true]
  rw [loop_tail post _ [] hp (by simp; omega)]
  simp

/-! ### the embedded dotted quad -/

theorem hexChar_digit (d : Nat) (hd : d < 10) : V6.hexChar d = 48 + d := by
  unfold V6.hexChar; rw [if_pos hd]

/-- the decimal digits of the first octet are read as hex digits; then the loop stands in front of the '.' -/
theorem read_dec (o : Nat) (ho : o < 256) : ∃ k v, ∀ (rest ct tp : List Nat) (cp : Option Nat),
    V6.pton6Loop (V4.decOctet o ++ rest) ct 0 0 tp cp = V6.pton6Loop rest ct k v tp cp := by
  unfold V4.decOctet
  by_cases h1 : o < 10
  · refine ⟨0 + 1, 0 * 16 + o, fun rest ct tp cp => ?_⟩
    simp only [h1, if_true, List.cons_append, List.nil_append]
    rw [← hexChar_digit o h1, step_hex o (by omega), if_neg (by omega), if_neg (by omega)]
  · by_cases h2 : o < 100
    · refine ⟨0 + 1 + 1, (0 * 16 + o / 10) * 16 + o % 10, fun rest ct tp cp => ?_⟩
      simp only [h1, h2, if_true, if_false, List.cons_append, List.nil_append]
      rw [← hexChar_digit (o / 10) (by omega), ← hexChar_digit (o % 10) (by omega),
        step_hex (o / 10) (by omega), if_neg (by omega), if_neg (by omega),
        step_hex (o % 10) (by omega), if_neg (by omega), if_neg (by omega)]
    · refine ⟨0 + 1 + 1 + 1, ((0 * 16 + o / 100) * 16 + o / 10 % 10) * 16 + o % 10, fun rest ct tp cp => ?_⟩
      simp only [h1, h2, if_false, List.cons_append, List.nil_append]
      rw [← hexChar_digit (o / 100) (by omega), ← hexChar_digit (o / 10 % 10) (by omega),
        ← hexChar_digit (o % 10) (by omega),
        step_hex (o / 100) (by omega), if_neg (by omega), if_neg (by omega),
        step_hex (o / 10 % 10) (by omega), if_neg (by omega), if_neg (by omega),
        step_hex (o % 10) (by omega), if_neg (by omega), if_neg (by omega)]

theorem pton4_ntop4 (a b c d : Nat) (ha : a < 256) (hb : b < 256) (hc : c < 256) (hd : d < 256) :
    V4.pton4Loop (V6.ntop4 [a, b, c, d]) 0 false 0 [] = some [a, b, c, d] := by
  unfold V6.ntop4
  simp only [List.append_assoc, List.cons_append, List.nil_append]
  rw [pton4_octet _ ha 0 (by omega), pton4_dot, if_neg (by omega),
      pton4_octet _ hb 1 (by omega), pton4_dot, if_neg (by omega),
      pton4_octet _ hc 2 (by omega), pton4_dot, if_neg (by omega)]
  have := pton4_octet _ hd 3 (by omega) [] [c, b, a]
  rw [List.append_nil] at this
  rw [this]
  simp [V4.pton4Loop]

theorem loop_v4 (a b c d : Nat) (ha : a < 256) (hb : b < 256) (hc : c < 256) (hd : d < 256)
    (tp : List Nat) (cp : Option Nat) (hl : tp.length + 4 ≤ 16) :
    V6.pton6Loop (V6.ntop4 [a, b, c, d]) (V6.ntop4 [a, b, c, d]) 0 0 tp cp =
      V6.pton6Finish 0 0 (tp ++ [a, b, c, d]) cp := by
  have hq := pton4_ntop4 a b c d ha hb hc hd
  obtain ⟨k, v, hk⟩ := read_dec a ha
  have e : V6.ntop4 [a, b, c, d] =
      V4.decOctet a ++ 46 :: (V4.decOctet b ++ [46] ++ V4.decOctet c ++ [46] ++ V4.decOctet d) := by
    simp [V6.ntop4]
  rw [e] at hq ⊢
  rw [hk, step_dot _ _ _ _ _ _ hl _ hq]
  unfold V6.pton6Finish
  simp

/-- "::a.b.c.d" -/
theorem pton6_v4compat (a b c d : Nat) (ha : a < 256) (hb : b < 256) (hc : c < 256) (hd : d < 256) :
    V6.pton6 (58 :: 58 :: V6.ntop4 [a, b, c, d]) = some (List.replicate 12 0 ++ [a, b, c, d]) := by
  rw [pton6_cc, loop_v4 a b c d ha hb hc hd [] _ (by simp)]
  simp [V6.pton6Finish]

/-- "::ffff:a.b.c.d" -/
theorem pton6_v4mapped (a b c d : Nat) (ha : a < 256) (hb : b < 256) (hc : c < 256) (hd : d < 256) :
    V6.pton6 (58 :: 58 :: (V6.fmtHex 65535 ++ 58 :: V6.ntop4 [a, b, c, d])) =
      some (List.replicate 10 0 ++ [255, 255, a, b, c, d]) := by
  have hne : V6.ntop4 [a, b, c, d] ≠ [] := by
    obtain ⟨d0, t, e⟩ : ∃ d0 t, V4.decOctet a = d0 :: t := by
      unfold V4.decOctet; split
      · exact ⟨_, _, rfl⟩
      · split <;> exact ⟨_, _, rfl⟩
    simp [V6.ntop4, e]
  rw [pton6_cc, group_colon 65535 (by omega) _ _ [] _ hne (by simp),
    loop_v4 a b c d ha hb hc hd _ _ (by simp [V6.store16])]
  simp [V6.pton6Finish, V6.store16]

/-! ### the run finder depends on the zero pattern only -/

def scanP : List Bool → Nat → Option (Nat × Nat) → Option (Nat × Nat) → Option (Nat × Nat)
  | [], _, best, cur => V6.scanRuns [] 0 best cur
  | p :: ps, i, best, cur =>
    if p then
      match cur with
      | none => scanP ps (i + 1) best (some (i, 1))
      | some (b, l) => scanP ps (i + 1) best (some (b, l + 1))
    else
      match cur with
      | some c => scanP ps (i + 1) (V6.pick best c) none
      | none => scanP ps (i + 1) best none

theorem scanRuns_eq_scanP : ∀ (ws : List Nat) (i : Nat) (best cur : Option (Nat × Nat)),
    V6.scanRuns ws i best cur = scanP (ws.map (fun w => decide (w = 0))) i best cur
  | [], i, best, cur => by simp only [V6.scanRuns, List.map_nil, scanP]
  | w :: ws, i, best, cur => by
    simp only [V6.scanRuns, List.map_cons, scanP, decide_eq_true_eq]
    by_cases h : w = 0
    · simp only [h, if_true]
      cases cur with
      | none => exact scanRuns_eq_scanP ws _ _ _
      | some c => exact scanRuns_eq_scanP ws _ _ _
    · simp only [h, if_false]
      cases cur with
      | none => exact scanRuns_eq_scanP ws _ _ _
      | some c => exact scanRuns_eq_scanP ws _ _ _

/-- what the run finder can return: nothing, or a run of at least two words inside the address, all of them zero -/
def RunOK (p0 p1 p2 p3 p4 p5 p6 p7 : Bool) : Option (Nat × Nat) → Bool
  | none => true
  | some (i, l) => decide (2 ≤ l) && decide (i + l ≤ 8) &&
      (!(decide (i ≤ 0) && decide (0 < i + l)) || p0) && (!(decide (i ≤ 1) && decide (1 < i + l)) || p1) &&
      (!(decide (i ≤ 2) && decide (2 < i + l)) || p2) && (!(decide (i ≤ 3) && decide (3 < i + l)) || p3) &&
      (!(decide (i ≤ 4) && decide (4 < i + l)) || p4) && (!(decide (i ≤ 5) && decide (5 < i + l)) || p5) &&
      (!(decide (i ≤ 6) && decide (6 < i + l)) || p6) && (!(decide (i ≤ 7) && decide (7 < i + l)) || p7)

theorem scanP_ok : ∀ p0 p1 p2 p3 p4 p5 p6 p7 : Bool,
    RunOK p0 p1 p2 p3 p4 p5 p6 p7 (scanP [p0, p1, p2, p3, p4, p5, p6, p7] 0 none none) = true := by
  decide

theorem RunOK_bounds (p0 p1 p2 p3 p4 p5 p6 p7 : Bool) (i l : Nat)
    (h : RunOK p0 p1 p2 p3 p4 p5 p6 p7 (some (i, l)) = true) : 2 ≤ l ∧ i + l ≤ 8 := by
  simp only [RunOK, Bool.and_eq_true, decide_eq_true_eq] at h
  exact ⟨h.1.1.1.1.1.1.1.1.1, h.1.1.1.1.1.1.1.1.2⟩

/-! ### the printer and the round trip, case by case (one case per result of the run finder; generated text) -/

set_option linter.unusedSimpArgs false
set_option linter.unusedVariables false

theorem ntop6_none (b0 b1 b2 b3 b4 b5 b6 b7 b8 b9 b10 b11 b12 b13 b14 b15 : Nat) (hs : V6.scanRuns [b0 * 256 + b1, b2 * 256 + b3, b4 * 256 + b5, b6 * 256 + b7, b8 * 256 + b9, b10 * 256 + b11, b12 * 256 + b13, b14 * 256 + b15] 0 none none = none) :
    V6.ntop6 [b0, b1, b2, b3, b4, b5, b6, b7, b8, b9, b10, b11, b12, b13, b14, b15] = joinHex [b0 * 256 + b1, b2 * 256 + b3, b4 * 256 + b5, b6 * 256 + b7, b8 * 256 + b9, b10 * 256 + b11, b12 * 256 + b13, b14 * 256 + b15] := by
  simp [V6.ntop6, V6.words, hs, V6.fmtLoop, V6.inBest, V6.isEncapsulatedV4, groupC, joinHex]

theorem rt_none (b0 b1 b2 b3 b4 b5 b6 b7 b8 b9 b10 b11 b12 b13 b14 b15 : Nat) (hb0 : b0 < 256) (hb1 : b1 < 256) (hb2 : b2 < 256) (hb3 : b3 < 256) (hb4 : b4 < 256) (hb5 : b5 < 256) (hb6 : b6 < 256) (hb7 : b7 < 256) (hb8 : b8 < 256) (hb9 : b9 < 256) (hb10 : b10 < 256) (hb11 : b11 < 256) (hb12 : b12 < 256) (hb13 : b13 < 256) (hb14 : b14 < 256) (hb15 : b15 < 256) (hs : V6.scanRuns [b0 * 256 + b1, b2 * 256 + b3, b4 * 256 + b5, b6 * 256 + b7, b8 * 256 + b9, b10 * 256 + b11, b12 * 256 + b13, b14 * 256 + b15] 0 none none = none) :
    V6.pton6 (V6.ntop6 [b0, b1, b2, b3, b4, b5, b6, b7, b8, b9, b10, b11, b12, b13, b14, b15]) = some [b0, b1, b2, b3, b4, b5, b6, b7, b8, b9, b10, b11, b12, b13, b14, b15] := by
  have s0 : V6.store16 (b0 * 256 + b1) = [b0, b1] := by simp only [V6.store16, List.cons.injEq, and_true]; omega
  have s1 : V6.store16 (b2 * 256 + b3) = [b2, b3] := by simp only [V6.store16, List.cons.injEq, and_true]; omega
  have s2 : V6.store16 (b4 * 256 + b5) = [b4, b5] := by simp only [V6.store16, List.cons.injEq, and_true]; omega
  have s3 : V6.store16 (b6 * 256 + b7) = [b6, b7] := by simp only [V6.store16, List.cons.injEq, and_true]; omega
  have s4 : V6.store16 (b8 * 256 + b9) = [b8, b9] := by simp only [V6.store16, List.cons.injEq, and_true]; omega
  have s5 : V6.store16 (b10 * 256 + b11) = [b10, b11] := by simp only [V6.store16, List.cons.injEq, and_true]; omega
  have s6 : V6.store16 (b12 * 256 + b13) = [b12, b13] := by simp only [V6.store16, List.cons.injEq, and_true]; omega
  have s7 : V6.store16 (b14 * 256 + b15) = [b14, b15] := by simp only [V6.store16, List.cons.injEq, and_true]; omega
  rw [ntop6_none _ _ _ _ _ _ _ _ _ _ _ _ _ _ _ _ hs, pton6_plain _ _ (by intro x hx; simp only [List.mem_cons, List.not_mem_nil, or_false] at hx <;> omega) (by rfl)]
  simp [bytes, s0, s1, s2, s3, s4, s5, s6, s7]

theorem ntop6_0_2 (b0 b1 b2 b3 b4 b5 b6 b7 b8 b9 b10 b11 b12 b13 b14 b15 : Nat) (hs : V6.scanRuns [b0 * 256 + b1, b2 * 256 + b3, b4 * 256 + b5, b6 * 256 + b7, b8 * 256 + b9, b10 * 256 + b11, b12 * 256 + b13, b14 * 256 + b15] 0 none none = some (0, 2)) :
    V6.ntop6 [b0, b1, b2, b3, b4, b5, b6, b7, b8, b9, b10, b11, b12, b13, b14, b15] = 58 :: 58 :: joinHex [b4 * 256 + b5, b6 * 256 + b7, b8 * 256 + b9, b10 * 256 + b11, b12 * 256 + b13, b14 * 256 + b15] := by
  simp [V6.ntop6, V6.words, hs, V6.fmtLoop, V6.inBest, V6.isEncapsulatedV4, groupC, joinHex]

theorem rt_0_2 (b0 b1 b2 b3 b4 b5 b6 b7 b8 b9 b10 b11 b12 b13 b14 b15 : Nat) (hb0 : b0 < 256) (hb1 : b1 < 256) (hb2 : b2 < 256) (hb3 : b3 < 256) (hb4 : b4 < 256) (hb5 : b5 < 256) (hb6 : b6 < 256) (hb7 : b7 < 256) (hb8 : b8 < 256) (hb9 : b9 < 256) (hb10 : b10 < 256) (hb11 : b11 < 256) (hb12 : b12 < 256) (hb13 : b13 < 256) (hb14 : b14 < 256) (hb15 : b15 < 256) (hs : V6.scanRuns [b0 * 256 + b1, b2 * 256 + b3, b4 * 256 + b5, b6 * 256 + b7, b8 * 256 + b9, b10 * 256 + b11, b12 * 256 + b13, b14 * 256 + b15] 0 none none = some (0, 2)) (hok : RunOK (decide (b0 * 256 + b1 = 0)) (decide (b2 * 256 + b3 = 0)) (decide (b4 * 256 + b5 = 0)) (decide (b6 * 256 + b7 = 0)) (decide (b8 * 256 + b9 = 0)) (decide (b10 * 256 + b11 = 0)) (decide (b12 * 256 + b13 = 0)) (decide (b14 * 256 + b15 = 0)) (some (0, 2)) = true) :
    V6.pton6 (V6.ntop6 [b0, b1, b2, b3, b4, b5, b6, b7, b8, b9, b10, b11, b12, b13, b14, b15]) = some [b0, b1, b2, b3, b4, b5, b6, b7, b8, b9, b10, b11, b12, b13, b14, b15] := by
  simp [RunOK] at hok
  have z0 : b0 = 0 := by omega
  have z1 : b1 = 0 := by omega
  have z2 : b2 = 0 := by omega
  have z3 : b3 = 0 := by omega
  have s0 : V6.store16 (b0 * 256 + b1) = [b0, b1] := by simp only [V6.store16, List.cons.injEq, and_true]; omega
  have s1 : V6.store16 (b2 * 256 + b3) = [b2, b3] := by simp only [V6.store16, List.cons.injEq, and_true]; omega
  have s2 : V6.store16 (b4 * 256 + b5) = [b4, b5] := by simp only [V6.store16, List.cons.injEq, and_true]; omega
  have s3 : V6.store16 (b6 * 256 + b7) = [b6, b7] := by simp only [V6.store16, List.cons.injEq, and_true]; omega
  have s4 : V6.store16 (b8 * 256 + b9) = [b8, b9] := by simp only [V6.store16, List.cons.injEq, and_true]; omega
  have s5 : V6.store16 (b10 * 256 + b11) = [b10, b11] := by simp only [V6.store16, List.cons.injEq, and_true]; omega
  have s6 : V6.store16 (b12 * 256 + b13) = [b12, b13] := by simp only [V6.store16, List.cons.injEq, and_true]; omega
  have s7 : V6.store16 (b14 * 256 + b15) = [b14, b15] := by simp only [V6.store16, List.cons.injEq, and_true]; omega
  rw [ntop6_0_2 _ _ _ _ _ _ _ _ _ _ _ _ _ _ _ _ hs, pton6_front _ (by intro x hx; simp only [List.mem_cons, List.not_mem_nil, or_false] at hx <;> omega) (by simp)]
  simp [bytes, s0, s1, s2, s3, s4, s5, s6, s7, z0, z1, z2, z3]

theorem ntop6_0_3 (b0 b1 b2 b3 b4 b5 b6 b7 b8 b9 b10 b11 b12 b13 b14 b15 : Nat) (hs : V6.scanRuns [b0 * 256 + b1, b2 * 256 + b3, b4 * 256 + b5, b6 * 256 + b7, b8 * 256 + b9, b10 * 256 + b11, b12 * 256 + b13, b14 * 256 + b15] 0 none none = some (0, 3)) :
    V6.ntop6 [b0, b1, b2, b3, b4, b5, b6, b7, b8, b9, b10, b11, b12, b13, b14, b15] = 58 :: 58 :: joinHex [b6 * 256 + b7, b8 * 256 + b9, b10 * 256 + b11, b12 * 256 + b13, b14 * 256 + b15] := by
  simp [V6.ntop6, V6.words, hs, V6.fmtLoop, V6.inBest, V6.isEncapsulatedV4, groupC, joinHex]

theorem rt_0_3 (b0 b1 b2 b3 b4 b5 b6 b7 b8 b9 b10 b11 b12 b13 b14 b15 : Nat) (hb0 : b0 < 256) (hb1 : b1 < 256) (hb2 : b2 < 256) (hb3 : b3 < 256) (hb4 : b4 < 256) (hb5 : b5 < 256) (hb6 : b6 < 256) (hb7 : b7 < 256) (hb8 : b8 < 256) (hb9 : b9 < 256) (hb10 : b10 < 256) (hb11 : b11 < 256) (hb12 : b12 < 256) (hb13 : b13 < 256) (hb14 : b14 < 256) (hb15 : b15 < 256) (hs : V6.scanRuns [b0 * 256 + b1, b2 * 256 + b3, b4 * 256 + b5, b6 * 256 + b7, b8 * 256 + b9, b10 * 256 + b11, b12 * 256 + b13, b14 * 256 + b15] 0 none none = some (0, 3)) (hok : RunOK (decide (b0 * 256 + b1 = 0)) (decide (b2 * 256 + b3 = 0)) (decide (b4 * 256 + b5 = 0)) (decide (b6 * 256 + b7 = 0)) (decide (b8 * 256 + b9 = 0)) (decide (b10 * 256 + b11 = 0)) (decide (b12 * 256 + b13 = 0)) (decide (b14 * 256 + b15 = 0)) (some (0, 3)) = true) :
    V6.pton6 (V6.ntop6 [b0, b1, b2, b3, b4, b5, b6, b7, b8, b9, b10, b11, b12, b13, b14, b15]) = some [b0, b1, b2, b3, b4, b5, b6, b7, b8, b9, b10, b11, b12, b13, b14, b15] := by
  simp [RunOK] at hok
  have z0 : b0 = 0 := by omega
  have z1 : b1 = 0 := by omega
  have z2 : b2 = 0 := by omega
  have z3 : b3 = 0 := by omega
  have z4 : b4 = 0 := by omega
  have z5 : b5 = 0 := by omega
  have s0 : V6.store16 (b0 * 256 + b1) = [b0, b1] := by simp only [V6.store16, List.cons.injEq, and_true]; omega
  have s1 : V6.store16 (b2 * 256 + b3) = [b2, b3] := by simp only [V6.store16, List.cons.injEq, and_true]; omega
  have s2 : V6.store16 (b4 * 256 + b5) = [b4, b5] := by simp only [V6.store16, List.cons.injEq, and_true]; omega
  have s3 : V6.store16 (b6 * 256 + b7) = [b6, b7] := by simp only [V6.store16, List.cons.injEq, and_true]; omega
  have s4 : V6.store16 (b8 * 256 + b9) = [b8, b9] := by simp only [V6.store16, List.cons.injEq, and_true]; omega
  have s5 : V6.store16 (b10 * 256 + b11) = [b10, b11] := by simp only [V6.store16, List.cons.injEq, and_true]; omega
  have s6 : V6.store16 (b12 * 256 + b13) = [b12, b13] := by simp only [V6.store16, List.cons.injEq, and_true]; omega
  have s7 : V6.store16 (b14 * 256 + b15) = [b14, b15] := by simp only [V6.store16, List.cons.injEq, and_true]; omega
  rw [ntop6_0_3 _ _ _ _ _ _ _ _ _ _ _ _ _ _ _ _ hs, pton6_front _ (by intro x hx; simp only [List.mem_cons, List.not_mem_nil, or_false] at hx <;> omega) (by simp)]
  simp [bytes, s0, s1, s2, s3, s4, s5, s6, s7, z0, z1, z2, z3, z4, z5]

theorem ntop6_0_4 (b0 b1 b2 b3 b4 b5 b6 b7 b8 b9 b10 b11 b12 b13 b14 b15 : Nat) (hs : V6.scanRuns [b0 * 256 + b1, b2 * 256 + b3, b4 * 256 + b5, b6 * 256 + b7, b8 * 256 + b9, b10 * 256 + b11, b12 * 256 + b13, b14 * 256 + b15] 0 none none = some (0, 4)) :
    V6.ntop6 [b0, b1, b2, b3, b4, b5, b6, b7, b8, b9, b10, b11, b12, b13, b14, b15] = 58 :: 58 :: joinHex [b8 * 256 + b9, b10 * 256 + b11, b12 * 256 + b13, b14 * 256 + b15] := by
  simp [V6.ntop6, V6.words, hs, V6.fmtLoop, V6.inBest, V6.isEncapsulatedV4, groupC, joinHex]

theorem rt_0_4 (b0 b1 b2 b3 b4 b5 b6 b7 b8 b9 b10 b11 b12 b13 b14 b15 : Nat) (hb0 : b0 < 256) (hb1 : b1 < 256) (hb2 : b2 < 256) (hb3 : b3 < 256) (hb4 : b4 < 256) (hb5 : b5 < 256) (hb6 : b6 < 256) (hb7 : b7 < 256) (hb8 : b8 < 256) (hb9 : b9 < 256) (hb10 : b10 < 256) (hb11 : b11 < 256) (hb12 : b12 < 256) (hb13 : b13 < 256) (hb14 : b14 < 256) (hb15 : b15 < 256) (hs : V6.scanRuns [b0 * 256 + b1, b2 * 256 + b3, b4 * 256 + b5, b6 * 256 + b7, b8 * 256 + b9, b10 * 256 + b11, b12 * 256 + b13, b14 * 256 + b15] 0 none none = some (0, 4)) (hok : RunOK (decide (b0 * 256 + b1 = 0)) (decide (b2 * 256 + b3 = 0)) (decide (b4 * 256 + b5 = 0)) (decide (b6 * 256 + b7 = 0)) (decide (b8 * 256 + b9 = 0)) (decide (b10 * 256 + b11 = 0)) (decide (b12 * 256 + b13 = 0)) (decide (b14 * 256 + b15 = 0)) (some (0, 4)) = true) :
    V6.pton6 (V6.ntop6 [b0, b1, b2, b3, b4, b5, b6, b7, b8, b9, b10, b11, b12, b13, b14, b15]) = some [b0, b1, b2, b3, b4, b5, b6, b7, b8, b9, b10, b11, b12, b13, b14, b15] := by
  simp [RunOK] at hok
  have z0 : b0 = 0 := by omega
  have z1 : b1 = 0 := by omega
  have z2 : b2 = 0 := by omega
  have z3 : b3 = 0 := by omega
  have z4 : b4 = 0 := by omega
  have z5 : b5 = 0 := by omega
  have z6 : b6 = 0 := by omega
  have z7 : b7 = 0 := by omega
  have s0 : V6.store16 (b0 * 256 + b1) = [b0, b1] := by simp only [V6.store16, List.cons.injEq, and_true]; omega
  have s1 : V6.store16 (b2 * 256 + b3) = [b2, b3] := by simp only [V6.store16, List.cons.injEq, and_true]; omega
  have s2 : V6.store16 (b4 * 256 + b5) = [b4, b5] := by simp only [V6.store16, List.cons.injEq, and_true]; omega
  have s3 : V6.store16 (b6 * 256 + b7) = [b6, b7] := by simp only [V6.store16, List.cons.injEq, and_true]; omega
  have s4 : V6.store16 (b8 * 256 + b9) = [b8, b9] := by simp only [V6.store16, List.cons.injEq, and_true]; omega
  have s5 : V6.store16 (b10 * 256 + b11) = [b10, b11] := by simp only [V6.store16, List.cons.injEq, and_true]; omega
  have s6 : V6.store16 (b12 * 256 + b13) = [b12, b13] := by simp only [V6.store16, List.cons.injEq, and_true]; omega
  have s7 : V6.store16 (b14 * 256 + b15) = [b14, b15] := by simp only [V6.store16, List.cons.injEq, and_true]; omega
  rw [ntop6_0_4 _ _ _ _ _ _ _ _ _ _ _ _ _ _ _ _ hs, pton6_front _ (by intro x hx; simp only [List.mem_cons, List.not_mem_nil, or_false] at hx <;> omega) (by simp)]
  simp [bytes, s0, s1, s2, s3, s4, s5, s6, s7, z0, z1, z2, z3, z4, z5, z6, z7]

theorem ntop6_0_5 (b0 b1 b2 b3 b4 b5 b6 b7 b8 b9 b10 b11 b12 b13 b14 b15 : Nat) (hs : V6.scanRuns [b0 * 256 + b1, b2 * 256 + b3, b4 * 256 + b5, b6 * 256 + b7, b8 * 256 + b9, b10 * 256 + b11, b12 * 256 + b13, b14 * 256 + b15] 0 none none = some (0, 5)) (h5 : ¬ b10 * 256 + b11 = 65535) :
    V6.ntop6 [b0, b1, b2, b3, b4, b5, b6, b7, b8, b9, b10, b11, b12, b13, b14, b15] = 58 :: 58 :: joinHex [b10 * 256 + b11, b12 * 256 + b13, b14 * 256 + b15] := by
  simp [V6.ntop6, V6.words, hs, V6.fmtLoop, V6.inBest, V6.isEncapsulatedV4, groupC, joinHex, h5]

theorem rt_0_5_plain (b0 b1 b2 b3 b4 b5 b6 b7 b8 b9 b10 b11 b12 b13 b14 b15 : Nat) (hb0 : b0 < 256) (hb1 : b1 < 256) (hb2 : b2 < 256) (hb3 : b3 < 256) (hb4 : b4 < 256) (hb5 : b5 < 256) (hb6 : b6 < 256) (hb7 : b7 < 256) (hb8 : b8 < 256) (hb9 : b9 < 256) (hb10 : b10 < 256) (hb11 : b11 < 256) (hb12 : b12 < 256) (hb13 : b13 < 256) (hb14 : b14 < 256) (hb15 : b15 < 256) (hs : V6.scanRuns [b0 * 256 + b1, b2 * 256 + b3, b4 * 256 + b5, b6 * 256 + b7, b8 * 256 + b9, b10 * 256 + b11, b12 * 256 + b13, b14 * 256 + b15] 0 none none = some (0, 5)) (hok : RunOK (decide (b0 * 256 + b1 = 0)) (decide (b2 * 256 + b3 = 0)) (decide (b4 * 256 + b5 = 0)) (decide (b6 * 256 + b7 = 0)) (decide (b8 * 256 + b9 = 0)) (decide (b10 * 256 + b11 = 0)) (decide (b12 * 256 + b13 = 0)) (decide (b14 * 256 + b15 = 0)) (some (0, 5)) = true) (h5 : ¬ b10 * 256 + b11 = 65535) :
    V6.pton6 (V6.ntop6 [b0, b1, b2, b3, b4, b5, b6, b7, b8, b9, b10, b11, b12, b13, b14, b15]) = some [b0, b1, b2, b3, b4, b5, b6, b7, b8, b9, b10, b11, b12, b13, b14, b15] := by
  simp [RunOK] at hok
  have z0 : b0 = 0 := by omega
  have z1 : b1 = 0 := by omega
  have z2 : b2 = 0 := by omega
  have z3 : b3 = 0 := by omega
  have z4 : b4 = 0 := by omega
  have z5 : b5 = 0 := by omega
  have z6 : b6 = 0 := by omega
  have z7 : b7 = 0 := by omega
  have z8 : b8 = 0 := by omega
  have z9 : b9 = 0 := by omega
  have s0 : V6.store16 (b0 * 256 + b1) = [b0, b1] := by simp only [V6.store16, List.cons.injEq, and_true]; omega
  have s1 : V6.store16 (b2 * 256 + b3) = [b2, b3] := by simp only [V6.store16, List.cons.injEq, and_true]; omega
  have s2 : V6.store16 (b4 * 256 + b5) = [b4, b5] := by simp only [V6.store16, List.cons.injEq, and_true]; omega
  have s3 : V6.store16 (b6 * 256 + b7) = [b6, b7] := by simp only [V6.store16, List.cons.injEq, and_true]; omega
  have s4 : V6.store16 (b8 * 256 + b9) = [b8, b9] := by simp only [V6.store16, List.cons.injEq, and_true]; omega
  have s5 : V6.store16 (b10 * 256 + b11) = [b10, b11] := by simp only [V6.store16, List.cons.injEq, and_true]; omega
  have s6 : V6.store16 (b12 * 256 + b13) = [b12, b13] := by simp only [V6.store16, List.cons.injEq, and_true]; omega
  have s7 : V6.store16 (b14 * 256 + b15) = [b14, b15] := by simp only [V6.store16, List.cons.injEq, and_true]; omega
  rw [ntop6_0_5 _ _ _ _ _ _ _ _ _ _ _ _ _ _ _ _ hs h5, pton6_front _ (by intro x hx; simp only [List.mem_cons, List.not_mem_nil, or_false] at hx <;> omega) (by simp)]
  simp [bytes, s0, s1, s2, s3, s4, s5, s6, s7, z0, z1, z2, z3, z4, z5, z6, z7, z8, z9]

theorem ntop6_0_5_mapped (b0 b1 b2 b3 b4 b5 b6 b7 b8 b9 b10 b11 b12 b13 b14 b15 : Nat) (hs : V6.scanRuns [b0 * 256 + b1, b2 * 256 + b3, b4 * 256 + b5, b6 * 256 + b7, b8 * 256 + b9, b10 * 256 + b11, b12 * 256 + b13, b14 * 256 + b15] 0 none none = some (0, 5)) (h5 : b10 * 256 + b11 = 65535) :
    V6.ntop6 [b0, b1, b2, b3, b4, b5, b6, b7, b8, b9, b10, b11, b12, b13, b14, b15] = 58 :: 58 :: (V6.fmtHex 65535 ++ 58 :: V6.ntop4 [b12, b13, b14, b15]) := by
  rw [h5] at hs
  simp [V6.ntop6, V6.words, hs, V6.fmtLoop, V6.inBest, V6.isEncapsulatedV4, h5]

theorem rt_0_5 (b0 b1 b2 b3 b4 b5 b6 b7 b8 b9 b10 b11 b12 b13 b14 b15 : Nat) (hb0 : b0 < 256) (hb1 : b1 < 256) (hb2 : b2 < 256) (hb3 : b3 < 256) (hb4 : b4 < 256) (hb5 : b5 < 256) (hb6 : b6 < 256) (hb7 : b7 < 256) (hb8 : b8 < 256) (hb9 : b9 < 256) (hb10 : b10 < 256) (hb11 : b11 < 256) (hb12 : b12 < 256) (hb13 : b13 < 256) (hb14 : b14 < 256) (hb15 : b15 < 256) (hs : V6.scanRuns [b0 * 256 + b1, b2 * 256 + b3, b4 * 256 + b5, b6 * 256 + b7, b8 * 256 + b9, b10 * 256 + b11, b12 * 256 + b13, b14 * 256 + b15] 0 none none = some (0, 5)) (hok : RunOK (decide (b0 * 256 + b1 = 0)) (decide (b2 * 256 + b3 = 0)) (decide (b4 * 256 + b5 = 0)) (decide (b6 * 256 + b7 = 0)) (decide (b8 * 256 + b9 = 0)) (decide (b10 * 256 + b11 = 0)) (decide (b12 * 256 + b13 = 0)) (decide (b14 * 256 + b15 = 0)) (some (0, 5)) = true) :
    V6.pton6 (V6.ntop6 [b0, b1, b2, b3, b4, b5, b6, b7, b8, b9, b10, b11, b12, b13, b14, b15]) = some [b0, b1, b2, b3, b4, b5, b6, b7, b8, b9, b10, b11, b12, b13, b14, b15] := by
  by_cases h5 : b10 * 256 + b11 = 65535
  · simp [RunOK] at hok
    have z0 : b0 = 0 := by omega
    have z1 : b1 = 0 := by omega
    have z2 : b2 = 0 := by omega
    have z3 : b3 = 0 := by omega
    have z4 : b4 = 0 := by omega
    have z5 : b5 = 0 := by omega
    have z6 : b6 = 0 := by omega
    have z7 : b7 = 0 := by omega
    have z8 : b8 = 0 := by omega
    have z9 : b9 = 0 := by omega
    have y10 : b10 = 255 := by omega
    have y11 : b11 = 255 := by omega
    rw [ntop6_0_5_mapped _ _ _ _ _ _ _ _ _ _ _ _ _ _ _ _ hs h5, pton6_v4mapped _ _ _ _ hb12 hb13 hb14 hb15]
    simp [z0, z1, z2, z3, z4, z5, z6, z7, z8, z9, y10, y11]
  · exact rt_0_5_plain _ _ _ _ _ _ _ _ _ _ _ _ _ _ _ _ hb0 hb1 hb2 hb3 hb4 hb5 hb6 hb7 hb8 hb9 hb10 hb11 hb12 hb13 hb14 hb15 hs hok h5

theorem ntop6_0_6 (b0 b1 b2 b3 b4 b5 b6 b7 b8 b9 b10 b11 b12 b13 b14 b15 : Nat) (hs : V6.scanRuns [b0 * 256 + b1, b2 * 256 + b3, b4 * 256 + b5, b6 * 256 + b7, b8 * 256 + b9, b10 * 256 + b11, b12 * 256 + b13, b14 * 256 + b15] 0 none none = some (0, 6)) :
    V6.ntop6 [b0, b1, b2, b3, b4, b5, b6, b7, b8, b9, b10, b11, b12, b13, b14, b15] = 58 :: 58 :: V6.ntop4 [b12, b13, b14, b15] := by
  simp [V6.ntop6, V6.words, hs, V6.fmtLoop, V6.inBest, V6.isEncapsulatedV4, groupC, joinHex]

theorem rt_0_6 (b0 b1 b2 b3 b4 b5 b6 b7 b8 b9 b10 b11 b12 b13 b14 b15 : Nat) (hb0 : b0 < 256) (hb1 : b1 < 256) (hb2 : b2 < 256) (hb3 : b3 < 256) (hb4 : b4 < 256) (hb5 : b5 < 256) (hb6 : b6 < 256) (hb7 : b7 < 256) (hb8 : b8 < 256) (hb9 : b9 < 256) (hb10 : b10 < 256) (hb11 : b11 < 256) (hb12 : b12 < 256) (hb13 : b13 < 256) (hb14 : b14 < 256) (hb15 : b15 < 256) (hs : V6.scanRuns [b0 * 256 + b1, b2 * 256 + b3, b4 * 256 + b5, b6 * 256 + b7, b8 * 256 + b9, b10 * 256 + b11, b12 * 256 + b13, b14 * 256 + b15] 0 none none = some (0, 6)) (hok : RunOK (decide (b0 * 256 + b1 = 0)) (decide (b2 * 256 + b3 = 0)) (decide (b4 * 256 + b5 = 0)) (decide (b6 * 256 + b7 = 0)) (decide (b8 * 256 + b9 = 0)) (decide (b10 * 256 + b11 = 0)) (decide (b12 * 256 + b13 = 0)) (decide (b14 * 256 + b15 = 0)) (some (0, 6)) = true) :
    V6.pton6 (V6.ntop6 [b0, b1, b2, b3, b4, b5, b6, b7, b8, b9, b10, b11, b12, b13, b14, b15]) = some [b0, b1, b2, b3, b4, b5, b6, b7, b8, b9, b10, b11, b12, b13, b14, b15] := by
  simp [RunOK] at hok
  have z0 : b0 = 0 := by omega
  have z1 : b1 = 0 := by omega
  have z2 : b2 = 0 := by omega
  have z3 : b3 = 0 := by omega
  have z4 : b4 = 0 := by omega
  have z5 : b5 = 0 := by omega
  have z6 : b6 = 0 := by omega
  have z7 : b7 = 0 := by omega
  have z8 : b8 = 0 := by omega
  have z9 : b9 = 0 := by omega
  have z10 : b10 = 0 := by omega
  have z11 : b11 = 0 := by omega
  rw [ntop6_0_6 _ _ _ _ _ _ _ _ _ _ _ _ _ _ _ _ hs, pton6_v4compat _ _ _ _ hb12 hb13 hb14 hb15]
  simp [z0, z1, z2, z3, z4, z5, z6, z7, z8, z9, z10, z11]

theorem ntop6_0_7 (b0 b1 b2 b3 b4 b5 b6 b7 b8 b9 b10 b11 b12 b13 b14 b15 : Nat) (hs : V6.scanRuns [b0 * 256 + b1, b2 * 256 + b3, b4 * 256 + b5, b6 * 256 + b7, b8 * 256 + b9, b10 * 256 + b11, b12 * 256 + b13, b14 * 256 + b15] 0 none none = some (0, 7)) :
    V6.ntop6 [b0, b1, b2, b3, b4, b5, b6, b7, b8, b9, b10, b11, b12, b13, b14, b15] = 58 :: 58 :: joinHex [b14 * 256 + b15] := by
  simp [V6.ntop6, V6.words, hs, V6.fmtLoop, V6.inBest, V6.isEncapsulatedV4, groupC, joinHex]

theorem rt_0_7 (b0 b1 b2 b3 b4 b5 b6 b7 b8 b9 b10 b11 b12 b13 b14 b15 : Nat) (hb0 : b0 < 256) (hb1 : b1 < 256) (hb2 : b2 < 256) (hb3 : b3 < 256) (hb4 : b4 < 256) (hb5 : b5 < 256) (hb6 : b6 < 256) (hb7 : b7 < 256) (hb8 : b8 < 256) (hb9 : b9 < 256) (hb10 : b10 < 256) (hb11 : b11 < 256) (hb12 : b12 < 256) (hb13 : b13 < 256) (hb14 : b14 < 256) (hb15 : b15 < 256) (hs : V6.scanRuns [b0 * 256 + b1, b2 * 256 + b3, b4 * 256 + b5, b6 * 256 + b7, b8 * 256 + b9, b10 * 256 + b11, b12 * 256 + b13, b14 * 256 + b15] 0 none none = some (0, 7)) (hok : RunOK (decide (b0 * 256 + b1 = 0)) (decide (b2 * 256 + b3 = 0)) (decide (b4 * 256 + b5 = 0)) (decide (b6 * 256 + b7 = 0)) (decide (b8 * 256 + b9 = 0)) (decide (b10 * 256 + b11 = 0)) (decide (b12 * 256 + b13 = 0)) (decide (b14 * 256 + b15 = 0)) (some (0, 7)) = true) :
    V6.pton6 (V6.ntop6 [b0, b1, b2, b3, b4, b5, b6, b7, b8, b9, b10, b11, b12, b13, b14, b15]) = some [b0, b1, b2, b3, b4, b5, b6, b7, b8, b9, b10, b11, b12, b13, b14, b15] := by
  simp [RunOK] at hok
  have z0 : b0 = 0 := by omega
  have z1 : b1 = 0 := by omega
  have z2 : b2 = 0 := by omega
  have z3 : b3 = 0 := by omega
  have z4 : b4 = 0 := by omega
  have z5 : b5 = 0 := by omega
  have z6 : b6 = 0 := by omega
  have z7 : b7 = 0 := by omega
  have z8 : b8 = 0 := by omega
  have z9 : b9 = 0 := by omega
  have z10 : b10 = 0 := by omega
  have z11 : b11 = 0 := by omega
  have z12 : b12 = 0 := by omega
  have z13 : b13 = 0 := by omega
  have s0 : V6.store16 (b0 * 256 + b1) = [b0, b1] := by simp only [V6.store16, List.cons.injEq, and_true]; omega
  have s1 : V6.store16 (b2 * 256 + b3) = [b2, b3] := by simp only [V6.store16, List.cons.injEq, and_true]; omega
  have s2 : V6.store16 (b4 * 256 + b5) = [b4, b5] := by simp only [V6.store16, List.cons.injEq, and_true]; omega
  have s3 : V6.store16 (b6 * 256 + b7) = [b6, b7] := by simp only [V6.store16, List.cons.injEq, and_true]; omega
  have s4 : V6.store16 (b8 * 256 + b9) = [b8, b9] := by simp only [V6.store16, List.cons.injEq, and_true]; omega
  have s5 : V6.store16 (b10 * 256 + b11) = [b10, b11] := by simp only [V6.store16, List.cons.injEq, and_true]; omega
  have s6 : V6.store16 (b12 * 256 + b13) = [b12, b13] := by simp only [V6.store16, List.cons.injEq, and_true]; omega
  have s7 : V6.store16 (b14 * 256 + b15) = [b14, b15] := by simp only [V6.store16, List.cons.injEq, and_true]; omega
  rw [ntop6_0_7 _ _ _ _ _ _ _ _ _ _ _ _ _ _ _ _ hs, pton6_front _ (by intro x hx; simp only [List.mem_cons, List.not_mem_nil, or_false] at hx <;> omega) (by simp)]
  simp [bytes, s0, s1, s2, s3, s4, s5, s6, s7, z0, z1, z2, z3, z4, z5, z6, z7, z8, z9, z10, z11, z12, z13]

theorem ntop6_0_8 (b0 b1 b2 b3 b4 b5 b6 b7 b8 b9 b10 b11 b12 b13 b14 b15 : Nat) (hs : V6.scanRuns [b0 * 256 + b1, b2 * 256 + b3, b4 * 256 + b5, b6 * 256 + b7, b8 * 256 + b9, b10 * 256 + b11, b12 * 256 + b13, b14 * 256 + b15] 0 none none = some (0, 8)) :
    V6.ntop6 [b0, b1, b2, b3, b4, b5, b6, b7, b8, b9, b10, b11, b12, b13, b14, b15] = 58 :: 58 :: joinHex [] := by
  simp [V6.ntop6, V6.words, hs, V6.fmtLoop, V6.inBest, V6.isEncapsulatedV4, groupC, joinHex]

theorem rt_0_8 (b0 b1 b2 b3 b4 b5 b6 b7 b8 b9 b10 b11 b12 b13 b14 b15 : Nat) (hb0 : b0 < 256) (hb1 : b1 < 256) (hb2 : b2 < 256) (hb3 : b3 < 256) (hb4 : b4 < 256) (hb5 : b5 < 256) (hb6 : b6 < 256) (hb7 : b7 < 256) (hb8 : b8 < 256) (hb9 : b9 < 256) (hb10 : b10 < 256) (hb11 : b11 < 256) (hb12 : b12 < 256) (hb13 : b13 < 256) (hb14 : b14 < 256) (hb15 : b15 < 256) (hs : V6.scanRuns [b0 * 256 + b1, b2 * 256 + b3, b4 * 256 + b5, b6 * 256 + b7, b8 * 256 + b9, b10 * 256 + b11, b12 * 256 + b13, b14 * 256 + b15] 0 none none = some (0, 8)) (hok : RunOK (decide (b0 * 256 + b1 = 0)) (decide (b2 * 256 + b3 = 0)) (decide (b4 * 256 + b5 = 0)) (decide (b6 * 256 + b7 = 0)) (decide (b8 * 256 + b9 = 0)) (decide (b10 * 256 + b11 = 0)) (decide (b12 * 256 + b13 = 0)) (decide (b14 * 256 + b15 = 0)) (some (0, 8)) = true) :
    V6.pton6 (V6.ntop6 [b0, b1, b2, b3, b4, b5, b6, b7, b8, b9, b10, b11, b12, b13, b14, b15]) = some [b0, b1, b2, b3, b4, b5, b6, b7, b8, b9, b10, b11, b12, b13, b14, b15] := by
  simp [RunOK] at hok
  have z0 : b0 = 0 := by omega
  have z1 : b1 = 0 := by omega
  have z2 : b2 = 0 := by omega
  have z3 : b3 = 0 := by omega
  have z4 : b4 = 0 := by omega
  have z5 : b5 = 0 := by omega
  have z6 : b6 = 0 := by omega
  have z7 : b7 = 0 := by omega
  have z8 : b8 = 0 := by omega
  have z9 : b9 = 0 := by omega
  have z10 : b10 = 0 := by omega
  have z11 : b11 = 0 := by omega
  have z12 : b12 = 0 := by omega
  have z13 : b13 = 0 := by omega
  have z14 : b14 = 0 := by omega
  have z15 : b15 = 0 := by omega
  have s0 : V6.store16 (b0 * 256 + b1) = [b0, b1] := by simp only [V6.store16, List.cons.injEq, and_true]; omega
  have s1 : V6.store16 (b2 * 256 + b3) = [b2, b3] := by simp only [V6.store16, List.cons.injEq, and_true]; omega
  have s2 : V6.store16 (b4 * 256 + b5) = [b4, b5] := by simp only [V6.store16, List.cons.injEq, and_true]; omega
  have s3 : V6.store16 (b6 * 256 + b7) = [b6, b7] := by simp only [V6.store16, List.cons.injEq, and_true]; omega
  have s4 : V6.store16 (b8 * 256 + b9) = [b8, b9] := by simp only [V6.store16, List.cons.injEq, and_true]; omega
  have s5 : V6.store16 (b10 * 256 + b11) = [b10, b11] := by simp only [V6.store16, List.cons.injEq, and_true]; omega
  have s6 : V6.store16 (b12 * 256 + b13) = [b12, b13] := by simp only [V6.store16, List.cons.injEq, and_true]; omega
  have s7 : V6.store16 (b14 * 256 + b15) = [b14, b15] := by simp only [V6.store16, List.cons.injEq, and_true]; omega
  rw [ntop6_0_8 _ _ _ _ _ _ _ _ _ _ _ _ _ _ _ _ hs, pton6_front _ (by intro x hx; simp only [List.mem_cons, List.not_mem_nil, or_false] at hx <;> omega) (by simp)]
  simp [bytes, s0, s1, s2, s3, s4, s5, s6, s7, z0, z1, z2, z3, z4, z5, z6, z7, z8, z9, z10, z11, z12, z13, z14, z15]

theorem ntop6_1_2 (b0 b1 b2 b3 b4 b5 b6 b7 b8 b9 b10 b11 b12 b13 b14 b15 : Nat) (hs : V6.scanRuns [b0 * 256 + b1, b2 * 256 + b3, b4 * 256 + b5, b6 * 256 + b7, b8 * 256 + b9, b10 * 256 + b11, b12 * 256 + b13, b14 * 256 + b15] 0 none none = some (1, 2)) :
    V6.ntop6 [b0, b1, b2, b3, b4, b5, b6, b7, b8, b9, b10, b11, b12, b13, b14, b15] = groupC [b0 * 256 + b1] ++ 58 :: joinHex [b6 * 256 + b7, b8 * 256 + b9, b10 * 256 + b11, b12 * 256 + b13, b14 * 256 + b15] := by
  simp [V6.ntop6, V6.words, hs, V6.fmtLoop, V6.inBest, V6.isEncapsulatedV4, groupC, joinHex]

theorem rt_1_2 (b0 b1 b2 b3 b4 b5 b6 b7 b8 b9 b10 b11 b12 b13 b14 b15 : Nat) (hb0 : b0 < 256) (hb1 : b1 < 256) (hb2 : b2 < 256) (hb3 : b3 < 256) (hb4 : b4 < 256) (hb5 : b5 < 256) (hb6 : b6 < 256) (hb7 : b7 < 256) (hb8 : b8 < 256) (hb9 : b9 < 256) (hb10 : b10 < 256) (hb11 : b11 < 256) (hb12 : b12 < 256) (hb13 : b13 < 256) (hb14 : b14 < 256) (hb15 : b15 < 256) (hs : V6.scanRuns [b0 * 256 + b1, b2 * 256 + b3, b4 * 256 + b5, b6 * 256 + b7, b8 * 256 + b9, b10 * 256 + b11, b12 * 256 + b13, b14 * 256 + b15] 0 none none = some (1, 2)) (hok : RunOK (decide (b0 * 256 + b1 = 0)) (decide (b2 * 256 + b3 = 0)) (decide (b4 * 256 + b5 = 0)) (decide (b6 * 256 + b7 = 0)) (decide (b8 * 256 + b9 = 0)) (decide (b10 * 256 + b11 = 0)) (decide (b12 * 256 + b13 = 0)) (decide (b14 * 256 + b15 = 0)) (some (1, 2)) = true) :
    V6.pton6 (V6.ntop6 [b0, b1, b2, b3, b4, b5, b6, b7, b8, b9, b10, b11, b12, b13, b14, b15]) = some [b0, b1, b2, b3, b4, b5, b6, b7, b8, b9, b10, b11, b12, b13, b14, b15] := by
  simp [RunOK] at hok
  have z2 : b2 = 0 := by omega
  have z3 : b3 = 0 := by omega
  have z4 : b4 = 0 := by omega
  have z5 : b5 = 0 := by omega
  have s0 : V6.store16 (b0 * 256 + b1) = [b0, b1] := by simp only [V6.store16, List.cons.injEq, and_true]; omega
  have s1 : V6.store16 (b2 * 256 + b3) = [b2, b3] := by simp only [V6.store16, List.cons.injEq, and_true]; omega
  have s2 : V6.store16 (b4 * 256 + b5) = [b4, b5] := by simp only [V6.store16, List.cons.injEq, and_true]; omega
  have s3 : V6.store16 (b6 * 256 + b7) = [b6, b7] := by simp only [V6.store16, List.cons.injEq, and_true]; omega
  have s4 : V6.store16 (b8 * 256 + b9) = [b8, b9] := by simp only [V6.store16, List.cons.injEq, and_true]; omega
  have s5 : V6.store16 (b10 * 256 + b11) = [b10, b11] := by simp only [V6.store16, List.cons.injEq, and_true]; omega
  have s6 : V6.store16 (b12 * 256 + b13) = [b12, b13] := by simp only [V6.store16, List.cons.injEq, and_true]; omega
  have s7 : V6.store16 (b14 * 256 + b15) = [b14, b15] := by simp only [V6.store16, List.cons.injEq, and_true]; omega
  rw [ntop6_1_2 _ _ _ _ _ _ _ _ _ _ _ _ _ _ _ _ hs, pton6_mid _ _ _ (by intro x hx; simp only [List.mem_cons, List.not_mem_nil, or_false] at hx <;> omega) (by intro x hx; simp only [List.mem_cons, List.not_mem_nil, or_false] at hx <;> omega) (by simp)]
  simp [bytes, s0, s1, s2, s3, s4, s5, s6, s7, z2, z3, z4, z5]

theorem ntop6_1_3 (b0 b1 b2 b3 b4 b5 b6 b7 b8 b9 b10 b11 b12 b13 b14 b15 : Nat) (hs : V6.scanRuns [b0 * 256 + b1, b2 * 256 + b3, b4 * 256 + b5, b6 * 256 + b7, b8 * 256 + b9, b10 * 256 + b11, b12 * 256 + b13, b14 * 256 + b15] 0 none none = some (1, 3)) :
    V6.ntop6 [b0, b1, b2, b3, b4, b5, b6, b7, b8, b9, b10, b11, b12, b13, b14, b15] = groupC [b0 * 256 + b1] ++ 58 :: joinHex [b8 * 256 + b9, b10 * 256 + b11, b12 * 256 + b13, b14 * 256 + b15] := by
  simp [V6.ntop6, V6.words, hs, V6.fmtLoop, V6.inBest, V6.isEncapsulatedV4, groupC, joinHex]

theorem rt_1_3 (b0 b1 b2 b3 b4 b5 b6 b7 b8 b9 b10 b11 b12 b13 b14 b15 : Nat) (hb0 : b0 < 256) (hb1 : b1 < 256) (hb2 : b2 < 256) (hb3 : b3 < 256) (hb4 : b4 < 256) (hb5 : b5 < 256) (hb6 : b6 < 256) (hb7 : b7 < 256) (hb8 : b8 < 256) (hb9 : b9 < 256) (hb10 : b10 < 256) (hb11 : b11 < 256) (hb12 : b12 < 256) (hb13 : b13 < 256) (hb14 : b14 < 256) (hb15 : b15 < 256) (hs : V6.scanRuns [b0 * 256 + b1, b2 * 256 + b3, b4 * 256 + b5, b6 * 256 + b7, b8 * 256 + b9, b10 * 256 + b11, b12 * 256 + b13, b14 * 256 + b15] 0 none none = some (1, 3)) (hok : RunOK (decide (b0 * 256 + b1 = 0)) (decide (b2 * 256 + b3 = 0)) (decide (b4 * 256 + b5 = 0)) (decide (b6 * 256 + b7 = 0)) (decide (b8 * 256 + b9 = 0)) (decide (b10 * 256 + b11 = 0)) (decide (b12 * 256 + b13 = 0)) (decide (b14 * 256 + b15 = 0)) (some (1, 3)) = true) :
    V6.pton6 (V6.ntop6 [b0, b1, b2, b3, b4, b5, b6, b7, b8, b9, b10, b11, b12, b13, b14, b15]) = some [b0, b1, b2, b3, b4, b5, b6, b7, b8, b9, b10, b11, b12, b13, b14, b15] := by
  simp [RunOK] at hok
  have z2 : b2 = 0 := by omega
  have z3 : b3 = 0 := by omega
  have z4 : b4 = 0 := by omega
  have z5 : b5 = 0 := by omega
  have z6 : b6 = 0 := by omega
  have z7 : b7 = 0 := by omega
  have s0 : V6.store16 (b0 * 256 + b1) = [b0, b1] := by simp only [V6.store16, List.cons.injEq, and_true]; omega
  have s1 : V6.store16 (b2 * 256 + b3) = [b2, b3] := by simp only [V6.store16, List.cons.injEq, and_true]; omega
  have s2 : V6.store16 (b4 * 256 + b5) = [b4, b5] := by simp only [V6.store16, List.cons.injEq, and_true]; omega
  have s3 : V6.store16 (b6 * 256 + b7) = [b6, b7] := by simp only [V6.store16, List.cons.injEq, and_true]; omega
  have s4 : V6.store16 (b8 * 256 + b9) = [b8, b9] := by simp only [V6.store16, List.cons.injEq, and_true]; omega
  have s5 : V6.store16 (b10 * 256 + b11) = [b10, b11] := by simp only [V6.store16, List.cons.injEq, and_true]; omega
  have s6 : V6.store16 (b12 * 256 + b13) = [b12, b13] := by simp only [V6.store16, List.cons.injEq, and_true]; omega
  have s7 : V6.store16 (b14 * 256 + b15) = [b14, b15] := by simp only [V6.store16, List.cons.injEq, and_true]; omega
  rw [ntop6_1_3 _ _ _ _ _ _ _ _ _ _ _ _ _ _ _ _ hs, pton6_mid _ _ _ (by intro x hx; simp only [List.mem_cons, List.not_mem_nil, or_false] at hx <;> omega) (by intro x hx; simp only [List.mem_cons, List.not_mem_nil, or_false] at hx <;> omega) (by simp)]
  simp [bytes, s0, s1, s2, s3, s4, s5, s6, s7, z2, z3, z4, z5, z6, z7]

theorem ntop6_1_4 (b0 b1 b2 b3 b4 b5 b6 b7 b8 b9 b10 b11 b12 b13 b14 b15 : Nat) (hs : V6.scanRuns [b0 * 256 + b1, b2 * 256 + b3, b4 * 256 + b5, b6 * 256 + b7, b8 * 256 + b9, b10 * 256 + b11, b12 * 256 + b13, b14 * 256 + b15] 0 none none = some (1, 4)) :
    V6.ntop6 [b0, b1, b2, b3, b4, b5, b6, b7, b8, b9, b10, b11, b12, b13, b14, b15] = groupC [b0 * 256 + b1] ++ 58 :: joinHex [b10 * 256 + b11, b12 * 256 + b13, b14 * 256 + b15] := by
  simp [V6.ntop6, V6.words, hs, V6.fmtLoop, V6.inBest, V6.isEncapsulatedV4, groupC, joinHex]

theorem rt_1_4 (b0 b1 b2 b3 b4 b5 b6 b7 b8 b9 b10 b11 b12 b13 b14 b15 : Nat) (hb0 : b0 < 256) (hb1 : b1 < 256) (hb2 : b2 < 256) (hb3 : b3 < 256) (hb4 : b4 < 256) (hb5 : b5 < 256) (hb6 : b6 < 256) (hb7 : b7 < 256) (hb8 : b8 < 256) (hb9 : b9 < 256) (hb10 : b10 < 256) (hb11 : b11 < 256) (hb12 : b12 < 256) (hb13 : b13 < 256) (hb14 : b14 < 256) (hb15 : b15 < 256) (hs : V6.scanRuns [b0 * 256 + b1, b2 * 256 + b3, b4 * 256 + b5, b6 * 256 + b7, b8 * 256 + b9, b10 * 256 + b11, b12 * 256 + b13, b14 * 256 + b15] 0 none none = some (1, 4)) (hok : RunOK (decide (b0 * 256 + b1 = 0)) (decide (b2 * 256 + b3 = 0)) (decide (b4 * 256 + b5 = 0)) (decide (b6 * 256 + b7 = 0)) (decide (b8 * 256 + b9 = 0)) (decide (b10 * 256 + b11 = 0)) (decide (b12 * 256 + b13 = 0)) (decide (b14 * 256 + b15 = 0)) (some (1, 4)) = true) :
    V6.pton6 (V6.ntop6 [b0, b1, b2, b3, b4, b5, b6, b7, b8, b9, b10, b11, b12, b13, b14, b15]) = some [b0, b1, b2, b3, b4, b5, b6, b7, b8, b9, b10, b11, b12, b13, b14, b15] := by
  simp [RunOK] at hok
  have z2 : b2 = 0 := by omega
  have z3 : b3 = 0 := by omega
  have z4 : b4 = 0 := by omega
  have z5 : b5 = 0 := by omega
  have z6 : b6 = 0 := by omega
  have z7 : b7 = 0 := by omega
  have z8 : b8 = 0 := by omega
  have z9 : b9 = 0 := by omega
  have s0 : V6.store16 (b0 * 256 + b1) = [b0, b1] := by simp only [V6.store16, List.cons.injEq, and_true]; omega
  have s1 : V6.store16 (b2 * 256 + b3) = [b2, b3] := by simp only [V6.store16, List.cons.injEq, and_true]; omega
  have s2 : V6.store16 (b4 * 256 + b5) = [b4, b5] := by simp only [V6.store16, List.cons.injEq, and_true]; omega
  have s3 : V6.store16 (b6 * 256 + b7) = [b6, b7] := by simp only [V6.store16, List.cons.injEq, and_true]; omega
  have s4 : V6.store16 (b8 * 256 + b9) = [b8, b9] := by simp only [V6.store16, List.cons.injEq, and_true]; omega
  have s5 : V6.store16 (b10 * 256 + b11) = [b10, b11] := by simp only [V6.store16, List.cons.injEq, and_true]; omega
  have s6 : V6.store16 (b12 * 256 + b13) = [b12, b13] := by simp only [V6.store16, List.cons.injEq, and_true]; omega
  have s7 : V6.store16 (b14 * 256 + b15) = [b14, b15] := by simp only [V6.store16, List.cons.injEq, and_true]; omega
  rw [ntop6_1_4 _ _ _ _ _ _ _ _ _ _ _ _ _ _ _ _ hs, pton6_mid _ _ _ (by intro x hx; simp only [List.mem_cons, List.not_mem_nil, or_false] at hx <;> omega) (by intro x hx; simp only [List.mem_cons, List.not_mem_nil, or_false] at hx <;> omega) (by simp)]
  simp [bytes, s0, s1, s2, s3, s4, s5, s6, s7, z2, z3, z4, z5, z6, z7, z8, z9]

theorem ntop6_1_5 (b0 b1 b2 b3 b4 b5 b6 b7 b8 b9 b10 b11 b12 b13 b14 b15 : Nat) (hs : V6.scanRuns [b0 * 256 + b1, b2 * 256 + b3, b4 * 256 + b5, b6 * 256 + b7, b8 * 256 + b9, b10 * 256 + b11, b12 * 256 + b13, b14 * 256 + b15] 0 none none = some (1, 5)) :
    V6.ntop6 [b0, b1, b2, b3, b4, b5, b6, b7, b8, b9, b10, b11, b12, b13, b14, b15] = groupC [b0 * 256 + b1] ++ 58 :: joinHex [b12 * 256 + b13, b14 * 256 + b15] := by
  simp [V6.ntop6, V6.words, hs, V6.fmtLoop, V6.inBest, V6.isEncapsulatedV4, groupC, joinHex]

theorem rt_1_5 (b0 b1 b2 b3 b4 b5 b6 b7 b8 b9 b10 b11 b12 b13 b14 b15 : Nat) (hb0 : b0 < 256) (hb1 : b1 < 256) (hb2 : b2 < 256) (hb3 : b3 < 256) (hb4 : b4 < 256) (hb5 : b5 < 256) (hb6 : b6 < 256) (hb7 : b7 < 256) (hb8 : b8 < 256) (hb9 : b9 < 256) (hb10 : b10 < 256) (hb11 : b11 < 256) (hb12 : b12 < 256) (hb13 : b13 < 256) (hb14 : b14 < 256) (hb15 : b15 < 256) (hs : V6.scanRuns [b0 * 256 + b1, b2 * 256 + b3, b4 * 256 + b5, b6 * 256 + b7, b8 * 256 + b9, b10 * 256 + b11, b12 * 256 + b13, b14 * 256 + b15] 0 none none = some (1, 5)) (hok : RunOK (decide (b0 * 256 + b1 = 0)) (decide (b2 * 256 + b3 = 0)) (decide (b4 * 256 + b5 = 0)) (decide (b6 * 256 + b7 = 0)) (decide (b8 * 256 + b9 = 0)) (decide (b10 * 256 + b11 = 0)) (decide (b12 * 256 + b13 = 0)) (decide (b14 * 256 + b15 = 0)) (some (1, 5)) = true) :
    V6.pton6 (V6.ntop6 [b0, b1, b2, b3, b4, b5, b6, b7, b8, b9, b10, b11, b12, b13, b14, b15]) = some [b0, b1, b2, b3, b4, b5, b6, b7, b8, b9, b10, b11, b12, b13, b14, b15] := by
  simp [RunOK] at hok
  have z2 : b2 = 0 := by omega
  have z3 : b3 = 0 := by omega
  have z4 : b4 = 0 := by omega
  have z5 : b5 = 0 := by omega
  have z6 : b6 = 0 := by omega
  have z7 : b7 = 0 := by omega
  have z8 : b8 = 0 := by omega
  have z9 : b9 = 0 := by omega
  have z10 : b10 = 0 := by omega
  have z11 : b11 = 0 := by omega
  have s0 : V6.store16 (b0 * 256 + b1) = [b0, b1] := by simp only [V6.store16, List.cons.injEq, and_true]; omega
  have s1 : V6.store16 (b2 * 256 + b3) = [b2, b3] := by simp only [V6.store16, List.cons.injEq, and_true]; omega
  have s2 : V6.store16 (b4 * 256 + b5) = [b4, b5] := by simp only [V6.store16, List.cons.injEq, and_true]; omega
  have s3 : V6.store16 (b6 * 256 + b7) = [b6, b7] := by simp only [V6.store16, List.cons.injEq, and_true]; omega
  have s4 : V6.store16 (b8 * 256 + b9) = [b8, b9] := by simp only [V6.store16, List.cons.injEq, and_true]; omega
  have s5 : V6.store16 (b10 * 256 + b11) = [b10, b11] := by simp only [V6.store16, List.cons.injEq, and_true]; omega
  have s6 : V6.store16 (b12 * 256 + b13) = [b12, b13] := by simp only [V6.store16, List.cons.injEq, and_true]; omega
  have s7 : V6.store16 (b14 * 256 + b15) = [b14, b15] := by simp only [V6.store16, List.cons.injEq, and_true]; omega
  rw [ntop6_1_5 _ _ _ _ _ _ _ _ _ _ _ _ _ _ _ _ hs, pton6_mid _ _ _ (by intro x hx; simp only [List.mem_cons, List.not_mem_nil, or_false] at hx <;> omega) (by intro x hx; simp only [List.mem_cons, List.not_mem_nil, or_false] at hx <;> omega) (by simp)]
  simp [bytes, s0, s1, s2, s3, s4, s5, s6, s7, z2, z3, z4, z5, z6, z7, z8, z9, z10, z11]

theorem ntop6_1_6 (b0 b1 b2 b3 b4 b5 b6 b7 b8 b9 b10 b11 b12 b13 b14 b15 : Nat) (hs : V6.scanRuns [b0 * 256 + b1, b2 * 256 + b3, b4 * 256 + b5, b6 * 256 + b7, b8 * 256 + b9, b10 * 256 + b11, b12 * 256 + b13, b14 * 256 + b15] 0 none none = some (1, 6)) :
    V6.ntop6 [b0, b1, b2, b3, b4, b5, b6, b7, b8, b9, b10, b11, b12, b13, b14, b15] = groupC [b0 * 256 + b1] ++ 58 :: joinHex [b14 * 256 + b15] := by
  simp [V6.ntop6, V6.words, hs, V6.fmtLoop, V6.inBest, V6.isEncapsulatedV4, groupC, joinHex]

theorem rt_1_6 (b0 b1 b2 b3 b4 b5 b6 b7 b8 b9 b10 b11 b12 b13 b14 b15 : Nat) (hb0 : b0 < 256) (hb1 : b1 < 256) (hb2 : b2 < 256) (hb3 : b3 < 256) (hb4 : b4 < 256) (hb5 : b5 < 256) (hb6 : b6 < 256) (hb7 : b7 < 256) (hb8 : b8 < 256) (hb9 : b9 < 256) (hb10 : b10 < 256) (hb11 : b11 < 256) (hb12 : b12 < 256) (hb13 : b13 < 256) (hb14 : b14 < 256) (hb15 : b15 < 256) (hs : V6.scanRuns [b0 * 256 + b1, b2 * 256 + b3, b4 * 256 + b5, b6 * 256 + b7, b8 * 256 + b9, b10 * 256 + b11, b12 * 256 + b13, b14 * 256 + b15] 0 none none = some (1, 6)) (hok : RunOK (decide (b0 * 256 + b1 = 0)) (decide (b2 * 256 + b3 = 0)) (decide (b4 * 256 + b5 = 0)) (decide (b6 * 256 + b7 = 0)) (decide (b8 * 256 + b9 = 0)) (decide (b10 * 256 + b11 = 0)) (decide (b12 * 256 + b13 = 0)) (decide (b14 * 256 + b15 = 0)) (some (1, 6)) = true) :
    V6.pton6 (V6.ntop6 [b0, b1, b2, b3, b4, b5, b6, b7, b8, b9, b10, b11, b12, b13, b14, b15]) = some [b0, b1, b2, b3, b4, b5, b6, b7, b8, b9, b10, b11, b12, b13, b14, b15] := by
  simp [RunOK] at hok
  have z2 : b2 = 0 := by omega
  have z3 : b3 = 0 := by omega
  have z4 : b4 = 0 := by omega
  have z5 : b5 = 0 := by omega
  have z6 : b6 = 0 := by omega
  have z7 : b7 = 0 := by omega
  have z8 : b8 = 0 := by omega
  have z9 : b9 = 0 := by omega
  have z10 : b10 = 0 := by omega
  have z11 : b11 = 0 := by omega
  have z12 : b12 = 0 := by omega
  have z13 : b13 = 0 := by omega
  have s0 : V6.store16 (b0 * 256 + b1) = [b0, b1] := by simp only [V6.store16, List.cons.injEq, and_true]; omega
  have s1 : V6.store16 (b2 * 256 + b3) = [b2, b3] := by simp only [V6.store16, List.cons.injEq, and_true]; omega
  have s2 : V6.store16 (b4 * 256 + b5) = [b4, b5] := by simp only [V6.store16, List.cons.injEq, and_true]; omega
  have s3 : V6.store16 (b6 * 256 + b7) = [b6, b7] := by simp only [V6.store16, List.cons.injEq, and_true]; omega
  have s4 : V6.store16 (b8 * 256 + b9) = [b8, b9] := by simp only [V6.store16, List.cons.injEq, and_true]; omega
  have s5 : V6.store16 (b10 * 256 + b11) = [b10, b11] := by simp only [V6.store16, List.cons.injEq, and_true]; omega
  have s6 : V6.store16 (b12 * 256 + b13) = [b12, b13] := by simp only [V6.store16, List.cons.injEq, and_true]; omega
  have s7 : V6.store16 (b14 * 256 + b15) = [b14, b15] := by simp only [V6.store16, List.cons.injEq, and_true]; omega
  rw [ntop6_1_6 _ _ _ _ _ _ _ _ _ _ _ _ _ _ _ _ hs, pton6_mid _ _ _ (by intro x hx; simp only [List.mem_cons, List.not_mem_nil, or_false] at hx <;> omega) (by intro x hx; simp only [List.mem_cons, List.not_mem_nil, or_false] at hx <;> omega) (by simp)]
  simp [bytes, s0, s1, s2, s3, s4, s5, s6, s7, z2, z3, z4, z5, z6, z7, z8, z9, z10, z11, z12, z13]

theorem ntop6_1_7 (b0 b1 b2 b3 b4 b5 b6 b7 b8 b9 b10 b11 b12 b13 b14 b15 : Nat) (hs : V6.scanRuns [b0 * 256 + b1, b2 * 256 + b3, b4 * 256 + b5, b6 * 256 + b7, b8 * 256 + b9, b10 * 256 + b11, b12 * 256 + b13, b14 * 256 + b15] 0 none none = some (1, 7)) :
    V6.ntop6 [b0, b1, b2, b3, b4, b5, b6, b7, b8, b9, b10, b11, b12, b13, b14, b15] = groupC [b0 * 256 + b1] ++ 58 :: joinHex [] := by
  simp [V6.ntop6, V6.words, hs, V6.fmtLoop, V6.inBest, V6.isEncapsulatedV4, groupC, joinHex]

theorem rt_1_7 (b0 b1 b2 b3 b4 b5 b6 b7 b8 b9 b10 b11 b12 b13 b14 b15 : Nat) (hb0 : b0 < 256) (hb1 : b1 < 256) (hb2 : b2 < 256) (hb3 : b3 < 256) (hb4 : b4 < 256) (hb5 : b5 < 256) (hb6 : b6 < 256) (hb7 : b7 < 256) (hb8 : b8 < 256) (hb9 : b9 < 256) (hb10 : b10 < 256) (hb11 : b11 < 256) (hb12 : b12 < 256) (hb13 : b13 < 256) (hb14 : b14 < 256) (hb15 : b15 < 256) (hs : V6.scanRuns [b0 * 256 + b1, b2 * 256 + b3, b4 * 256 + b5, b6 * 256 + b7, b8 * 256 + b9, b10 * 256 + b11, b12 * 256 + b13, b14 * 256 + b15] 0 none none = some (1, 7)) (hok : RunOK (decide (b0 * 256 + b1 = 0)) (decide (b2 * 256 + b3 = 0)) (decide (b4 * 256 + b5 = 0)) (decide (b6 * 256 + b7 = 0)) (decide (b8 * 256 + b9 = 0)) (decide (b10 * 256 + b11 = 0)) (decide (b12 * 256 + b13 = 0)) (decide (b14 * 256 + b15 = 0)) (some (1, 7)) = true) :
    V6.pton6 (V6.ntop6 [b0, b1, b2, b3, b4, b5, b6, b7, b8, b9, b10, b11, b12, b13, b14, b15]) = some [b0, b1, b2, b3, b4, b5, b6, b7, b8, b9, b10, b11, b12, b13, b14, b15] := by
  simp [RunOK] at hok
  have z2 : b2 = 0 := by omega
  have z3 : b3 = 0 := by omega
  have z4 : b4 = 0 := by omega
  have z5 : b5 = 0 := by omega
  have z6 : b6 = 0 := by omega
  have z7 : b7 = 0 := by omega
  have z8 : b8 = 0 := by omega
  have z9 : b9 = 0 := by omega
  have z10 : b10 = 0 := by omega
  have z11 : b11 = 0 := by omega
  have z12 : b12 = 0 := by omega
  have z13 : b13 = 0 := by omega
  have z14 : b14 = 0 := by omega
  have z15 : b15 = 0 := by omega
  have s0 : V6.store16 (b0 * 256 + b1) = [b0, b1] := by simp only [V6.store16, List.cons.injEq, and_true]; omega
  have s1 : V6.store16 (b2 * 256 + b3) = [b2, b3] := by simp only [V6.store16, List.cons.injEq, and_true]; omega
  have s2 : V6.store16 (b4 * 256 + b5) = [b4, b5] := by simp only [V6.store16, List.cons.injEq, and_true]; omega
  have s3 : V6.store16 (b6 * 256 + b7) = [b6, b7] := by simp only [V6.store16, List.cons.injEq, and_true]; omega
  have s4 : V6.store16 (b8 * 256 + b9) = [b8, b9] := by simp only [V6.store16, List.cons.injEq, and_true]; omega
  have s5 : V6.store16 (b10 * 256 + b11) = [b10, b11] := by simp only [V6.store16, List.cons.injEq, and_true]; omega
  have s6 : V6.store16 (b12 * 256 + b13) = [b12, b13] := by simp only [V6.store16, List.cons.injEq, and_true]; omega
  have s7 : V6.store16 (b14 * 256 + b15) = [b14, b15] := by simp only [V6.store16, List.cons.injEq, and_true]; omega
  rw [ntop6_1_7 _ _ _ _ _ _ _ _ _ _ _ _ _ _ _ _ hs, pton6_mid _ _ _ (by intro x hx; simp only [List.mem_cons, List.not_mem_nil, or_false] at hx <;> omega) (by intro x hx; simp only [List.mem_cons, List.not_mem_nil, or_false] at hx <;> omega) (by simp)]
  simp [bytes, s0, s1, s2, s3, s4, s5, s6, s7, z2, z3, z4, z5, z6, z7, z8, z9, z10, z11, z12, z13, z14, z15]

theorem ntop6_2_2 (b0 b1 b2 b3 b4 b5 b6 b7 b8 b9 b10 b11 b12 b13 b14 b15 : Nat) (hs : V6.scanRuns [b0 * 256 + b1, b2 * 256 + b3, b4 * 256 + b5, b6 * 256 + b7, b8 * 256 + b9, b10 * 256 + b11, b12 * 256 + b13, b14 * 256 + b15] 0 none none = some (2, 2)) :
    V6.ntop6 [b0, b1, b2, b3, b4, b5, b6, b7, b8, b9, b10, b11, b12, b13, b14, b15] = groupC [b0 * 256 + b1, b2 * 256 + b3] ++ 58 :: joinHex [b8 * 256 + b9, b10 * 256 + b11, b12 * 256 + b13, b14 * 256 + b15] := by
  simp [V6.ntop6, V6.words, hs, V6.fmtLoop, V6.inBest, V6.isEncapsulatedV4, groupC, joinHex]

theorem rt_2_2 (b0 b1 b2 b3 b4 b5 b6 b7 b8 b9 b10 b11 b12 b13 b14 b15 : Nat) (hb0 : b0 < 256) (hb1 : b1 < 256) (hb2 : b2 < 256) (hb3 : b3 < 256) (hb4 : b4 < 256) (hb5 : b5 < 256) (hb6 : b6 < 256) (hb7 : b7 < 256) (hb8 : b8 < 256) (hb9 : b9 < 256) (hb10 : b10 < 256) (hb11 : b11 < 256) (hb12 : b12 < 256) (hb13 : b13 < 256) (hb14 : b14 < 256) (hb15 : b15 < 256) (hs : V6.scanRuns [b0 * 256 + b1, b2 * 256 + b3, b4 * 256 + b5, b6 * 256 + b7, b8 * 256 + b9, b10 * 256 + b11, b12 * 256 + b13, b14 * 256 + b15] 0 none none = some (2, 2)) (hok : RunOK (decide (b0 * 256 + b1 = 0)) (decide (b2 * 256 + b3 = 0)) (decide (b4 * 256 + b5 = 0)) (decide (b6 * 256 + b7 = 0)) (decide (b8 * 256 + b9 = 0)) (decide (b10 * 256 + b11 = 0)) (decide (b12 * 256 + b13 = 0)) (decide (b14 * 256 + b15 = 0)) (some (2, 2)) = true) :
    V6.pton6 (V6.ntop6 [b0, b1, b2, b3, b4, b5, b6, b7, b8, b9, b10, b11, b12, b13, b14, b15]) = some [b0, b1, b2, b3, b4, b5, b6, b7, b8, b9, b10, b11, b12, b13, b14, b15] := by
  simp [RunOK] at hok
  have z4 : b4 = 0 := by omega
  have z5 : b5 = 0 := by omega
  have z6 : b6 = 0 := by omega
  have z7 : b7 = 0 := by omega
  have s0 : V6.store16 (b0 * 256 + b1) = [b0, b1] := by simp only [V6.store16, List.cons.injEq, and_true]; omega
  have s1 : V6.store16 (b2 * 256 + b3) = [b2, b3] := by simp only [V6.store16, List.cons.injEq, and_true]; omega
  have s2 : V6.store16 (b4 * 256 + b5) = [b4, b5] := by simp only [V6.store16, List.cons.injEq, and_true]; omega
  have s3 : V6.store16 (b6 * 256 + b7) = [b6, b7] := by simp only [V6.store16, List.cons.injEq, and_true]; omega
  have s4 : V6.store16 (b8 * 256 + b9) = [b8, b9] := by simp only [V6.store16, List.cons.injEq, and_true]; omega
  have s5 : V6.store16 (b10 * 256 + b11) = [b10, b11] := by simp only [V6.store16, List.cons.injEq, and_true]; omega
  have s6 : V6.store16 (b12 * 256 + b13) = [b12, b13] := by simp only [V6.store16, List.cons.injEq, and_true]; omega
  have s7 : V6.store16 (b14 * 256 + b15) = [b14, b15] := by simp only [V6.store16, List.cons.injEq, and_true]; omega
  rw [ntop6_2_2 _ _ _ _ _ _ _ _ _ _ _ _ _ _ _ _ hs, pton6_mid _ _ _ (by intro x hx; simp only [List.mem_cons, List.not_mem_nil, or_false] at hx <;> omega) (by intro x hx; simp only [List.mem_cons, List.not_mem_nil, or_false] at hx <;> omega) (by simp)]
  simp [bytes, s0, s1, s2, s3, s4, s5, s6, s7, z4, z5, z6, z7]

theorem ntop6_2_3 (b0 b1 b2 b3 b4 b5 b6 b7 b8 b9 b10 b11 b12 b13 b14 b15 : Nat) (hs : V6.scanRuns [b0 * 256 + b1, b2 * 256 + b3, b4 * 256 + b5, b6 * 256 + b7, b8 * 256 + b9, b10 * 256 + b11, b12 * 256 + b13, b14 * 256 + b15] 0 none none = some (2, 3)) :
    V6.ntop6 [b0, b1, b2, b3, b4, b5, b6, b7, b8, b9, b10, b11, b12, b13, b14, b15] = groupC [b0 * 256 + b1, b2 * 256 + b3] ++ 58 :: joinHex [b10 * 256 + b11, b12 * 256 + b13, b14 * 256 + b15] := by
  simp [V6.ntop6, V6.words, hs, V6.fmtLoop, V6.inBest, V6.isEncapsulatedV4, groupC, joinHex]

theorem rt_2_3 (b0 b1 b2 b3 b4 b5 b6 b7 b8 b9 b10 b11 b12 b13 b14 b15 : Nat) (hb0 : b0 < 256) (hb1 : b1 < 256) (hb2 : b2 < 256) (hb3 : b3 < 256) (hb4 : b4 < 256) (hb5 : b5 < 256) (hb6 : b6 < 256) (hb7 : b7 < 256) (hb8 : b8 < 256) (hb9 : b9 < 256) (hb10 : b10 < 256) (hb11 : b11 < 256) (hb12 : b12 < 256) (hb13 : b13 < 256) (hb14 : b14 < 256) (hb15 : b15 < 256) (hs : V6.scanRuns [b0 * 256 + b1, b2 * 256 + b3, b4 * 256 + b5, b6 * 256 + b7, b8 * 256 + b9, b10 * 256 + b11, b12 * 256 + b13, b14 * 256 + b15] 0 none none = some (2, 3)) (hok : RunOK (decide (b0 * 256 + b1 = 0)) (decide (b2 * 256 + b3 = 0)) (decide (b4 * 256 + b5 = 0)) (decide (b6 * 256 + b7 = 0)) (decide (b8 * 256 + b9 = 0)) (decide (b10 * 256 + b11 = 0)) (decide (b12 * 256 + b13 = 0)) (decide (b14 * 256 + b15 = 0)) (some (2, 3)) = true) :
    V6.pton6 (V6.ntop6 [b0, b1, b2, b3, b4, b5, b6, b7, b8, b9, b10, b11, b12, b13, b14, b15]) = some [b0, b1, b2, b3, b4, b5, b6, b7, b8, b9, b10, b11, b12, b13, b14, b15] := by
  simp [RunOK] at hok
  have z4 : b4 = 0 := by omega
  have z5 : b5 = 0 := by omega
  have z6 : b6 = 0 := by omega
  have z7 : b7 = 0 := by omega
  have z8 : b8 = 0 := by omega
  have z9 : b9 = 0 := by omega
  have s0 : V6.store16 (b0 * 256 + b1) = [b0, b1] := by simp only [V6.store16, List.cons.injEq, and_true]; omega
  have s1 : V6.store16 (b2 * 256 + b3) = [b2, b3] := by simp only [V6.store16, List.cons.injEq, and_true]; omega
  have s2 : V6.store16 (b4 * 256 + b5) = [b4, b5] := by simp only [V6.store16, List.cons.injEq, and_true]; omega
  have s3 : V6.store16 (b6 * 256 + b7) = [b6, b7] := by simp only [V6.store16, List.cons.injEq, and_true]; omega
  have s4 : V6.store16 (b8 * 256 + b9) = [b8, b9] := by simp only [V6.store16, List.cons.injEq, and_true]; omega
  have s5 : V6.store16 (b10 * 256 + b11) = [b10, b11] := by simp only [V6.store16, List.cons.injEq, and_true]; omega
  have s6 : V6.store16 (b12 * 256 + b13) = [b12, b13] := by simp only [V6.store16, List.cons.injEq, and_true]; omega
  have s7 : V6.store16 (b14 * 256 + b15) = [b14, b15] := by simp only [V6.store16, List.cons.injEq, and_true]; omega
  rw [ntop6_2_3 _ _ _ _ _ _ _ _ _ _ _ _ _ _ _ _ hs, pton6_mid _ _ _ (by intro x hx; simp only [List.mem_cons, List.not_mem_nil, or_false] at hx <;> omega) (by intro x hx; simp only [List.mem_cons, List.not_mem_nil, or_false] at hx <;> omega) (by simp)]
  simp [bytes, s0, s1, s2, s3, s4, s5, s6, s7, z4, z5, z6, z7, z8, z9]

theorem ntop6_2_4 (b0 b1 b2 b3 b4 b5 b6 b7 b8 b9 b10 b11 b12 b13 b14 b15 : Nat) (hs : V6.scanRuns [b0 * 256 + b1, b2 * 256 + b3, b4 * 256 + b5, b6 * 256 + b7, b8 * 256 + b9, b10 * 256 + b11, b12 * 256 + b13, b14 * 256 + b15] 0 none none = some (2, 4)) :
    V6.ntop6 [b0, b1, b2, b3, b4, b5, b6, b7, b8, b9, b10, b11, b12, b13, b14, b15] = groupC [b0 * 256 + b1, b2 * 256 + b3] ++ 58 :: joinHex [b12 * 256 + b13, b14 * 256 + b15] := by
  simp [V6.ntop6, V6.words, hs, V6.fmtLoop, V6.inBest, V6.isEncapsulatedV4, groupC, joinHex]

theorem rt_2_4 (b0 b1 b2 b3 b4 b5 b6 b7 b8 b9 b10 b11 b12 b13 b14 b15 : Nat) (hb0 : b0 < 256) (hb1 : b1 < 256) (hb2 : b2 < 256) (hb3 : b3 < 256) (hb4 : b4 < 256) (hb5 : b5 < 256) (hb6 : b6 < 256) (hb7 : b7 < 256) (hb8 : b8 < 256) (hb9 : b9 < 256) (hb10 : b10 < 256) (hb11 : b11 < 256) (hb12 : b12 < 256) (hb13 : b13 < 256) (hb14 : b14 < 256) (hb15 : b15 < 256) (hs : V6.scanRuns [b0 * 256 + b1, b2 * 256 + b3, b4 * 256 + b5, b6 * 256 + b7, b8 * 256 + b9, b10 * 256 + b11, b12 * 256 + b13, b14 * 256 + b15] 0 none none = some (2, 4)) (hok : RunOK (decide (b0 * 256 + b1 = 0)) (decide (b2 * 256 + b3 = 0)) (decide (b4 * 256 + b5 = 0)) (decide (b6 * 256 + b7 = 0)) (decide (b8 * 256 + b9 = 0)) (decide (b10 * 256 + b11 = 0)) (decide (b12 * 256 + b13 = 0)) (decide (b14 * 256 + b15 = 0)) (some (2, 4)) = true) :
    V6.pton6 (V6.ntop6 [b0, b1, b2, b3, b4, b5, b6, b7, b8, b9, b10, b11, b12, b13, b14, b15]) = some [b0, b1, b2, b3, b4, b5, b6, b7, b8, b9, b10, b11, b12, b13, b14, b15] := by
  simp [RunOK] at hok
  have z4 : b4 = 0 := by omega
  have z5 : b5 = 0 := by omega
  have z6 : b6 = 0 := by omega
  have z7 : b7 = 0 := by omega
  have z8 : b8 = 0 := by omega
  have z9 : b9 = 0 := by omega
  have z10 : b10 = 0 := by omega
  have z11 : b11 = 0 := by omega
  have s0 : V6.store16 (b0 * 256 + b1) = [b0, b1] := by simp only [V6.store16, List.cons.injEq, and_true]; omega
  have s1 : V6.store16 (b2 * 256 + b3) = [b2, b3] := by simp only [V6.store16, List.cons.injEq, and_true]; omega
  have s2 : V6.store16 (b4 * 256 + b5) = [b4, b5] := by simp only [V6.store16, List.cons.injEq, and_true]; omega
  have s3 : V6.store16 (b6 * 256 + b7) = [b6, b7] := by simp only [V6.store16, List.cons.injEq, and_true]; omega
  have s4 : V6.store16 (b8 * 256 + b9) = [b8, b9] := by simp only [V6.store16, List.cons.injEq, and_true]; omega
  have s5 : V6.store16 (b10 * 256 + b11) = [b10, b11] := by simp only [V6.store16, List.cons.injEq, and_true]; omega
  have s6 : V6.store16 (b12 * 256 + b13) = [b12, b13] := by simp only [V6.store16, List.cons.injEq, and_true]; omega
  have s7 : V6.store16 (b14 * 256 + b15) = [b14, b15] := by simp only [V6.store16, List.cons.injEq, and_true]; omega
  rw [ntop6_2_4 _ _ _ _ _ _ _ _ _ _ _ _ _ _ _ _ hs, pton6_mid _ _ _ (by intro x hx; simp only [List.mem_cons, List.not_mem_nil, or_false] at hx <;> omega) (by intro x hx; simp only [List.mem_cons, List.not_mem_nil, or_false] at hx <;> omega) (by simp)]
  simp [bytes, s0, s1, s2, s3, s4, s5, s6, s7, z4, z5, z6, z7, z8, z9, z10, z11]

theorem ntop6_2_5 (b0 b1 b2 b3 b4 b5 b6 b7 b8 b9 b10 b11 b12 b13 b14 b15 : Nat) (hs : V6.scanRuns [b0 * 256 + b1, b2 * 256 + b3, b4 * 256 + b5, b6 * 256 + b7, b8 * 256 + b9, b10 * 256 + b11, b12 * 256 + b13, b14 * 256 + b15] 0 none none = some (2, 5)) :
    V6.ntop6 [b0, b1, b2, b3, b4, b5, b6, b7, b8, b9, b10, b11, b12, b13, b14, b15] = groupC [b0 * 256 + b1, b2 * 256 + b3] ++ 58 :: joinHex [b14 * 256 + b15] := by
  simp [V6.ntop6, V6.words, hs, V6.fmtLoop, V6.inBest, V6.isEncapsulatedV4, groupC, joinHex]

theorem rt_2_5 (b0 b1 b2 b3 b4 b5 b6 b7 b8 b9 b10 b11 b12 b13 b14 b15 : Nat) (hb0 : b0 < 256) (hb1 : b1 < 256) (hb2 : b2 < 256) (hb3 : b3 < 256) (hb4 : b4 < 256) (hb5 : b5 < 256) (hb6 : b6 < 256) (hb7 : b7 < 256) (hb8 : b8 < 256) (hb9 : b9 < 256) (hb10 : b10 < 256) (hb11 : b11 < 256) (hb12 : b12 < 256) (hb13 : b13 < 256) (hb14 : b14 < 256) (hb15 : b15 < 256) (hs : V6.scanRuns [b0 * 256 + b1, b2 * 256 + b3, b4 * 256 + b5, b6 * 256 + b7, b8 * 256 + b9, b10 * 256 + b11, b12 * 256 + b13, b14 * 256 + b15] 0 none none = some (2, 5)) (hok : RunOK (decide (b0 * 256 + b1 = 0)) (decide (b2 * 256 + b3 = 0)) (decide (b4 * 256 + b5 = 0)) (decide (b6 * 256 + b7 = 0)) (decide (b8 * 256 + b9 = 0)) (decide (b10 * 256 + b11 = 0)) (decide (b12 * 256 + b13 = 0)) (decide (b14 * 256 + b15 = 0)) (some (2, 5)) = true) :
    V6.pton6 (V6.ntop6 [b0, b1, b2, b3, b4, b5, b6, b7, b8, b9, b10, b11, b12, b13, b14, b15]) = some [b0, b1, b2, b3, b4, b5, b6, b7, b8, b9, b10, b11, b12, b13, b14, b15] := by
  simp [RunOK] at hok
  have z4 : b4 = 0 := by omega
  have z5 : b5 = 0 := by omega
  have z6 : b6 = 0 := by omega
  have z7 : b7 = 0 := by omega
  have z8 : b8 = 0 := by omega
  have z9 : b9 = 0 := by omega
  have z10 : b10 = 0 := by omega
  have z11 : b11 = 0 := by omega
  have z12 : b12 = 0 := by omega
  have z13 : b13 = 0 := by omega
  have s0 : V6.store16 (b0 * 256 + b1) = [b0, b1] := by simp only [V6.store16, List.cons.injEq, and_true]; omega
  have s1 : V6.store16 (b2 * 256 + b3) = [b2, b3] := by simp only [V6.store16, List.cons.injEq, and_true]; omega
  have s2 : V6.store16 (b4 * 256 + b5) = [b4, b5] := by simp only [V6.store16, List.cons.injEq, and_true]; omega
  have s3 : V6.store16 (b6 * 256 + b7) = [b6, b7] := by simp only [V6.store16, List.cons.injEq, and_true]; omega
  have s4 : V6.store16 (b8 * 256 + b9) = [b8, b9] := by simp only [V6.store16, List.cons.injEq, and_true]; omega
  have s5 : V6.store16 (b10 * 256 + b11) = [b10, b11] := by simp only [V6.store16, List.cons.injEq, and_true]; omega
  have s6 : V6.store16 (b12 * 256 + b13) = [b12, b13] := by simp only [V6.store16, List.cons.injEq, and_true]; omega
  have s7 : V6.store16 (b14 * 256 + b15) = [b14, b15] := by simp only [V6.store16, List.cons.injEq, and_true]; omega
  rw [ntop6_2_5 _ _ _ _ _ _ _ _ _ _ _ _ _ _ _ _ hs, pton6_mid _ _ _ (by intro x hx; simp only [List.mem_cons, List.not_mem_nil, or_false] at hx <;> omega) (by intro x hx; simp only [List.mem_cons, List.not_mem_nil, or_false] at hx <;> omega) (by simp)]
  simp [bytes, s0, s1, s2, s3, s4, s5, s6, s7, z4, z5, z6, z7, z8, z9, z10, z11, z12, z13]

theorem ntop6_2_6 (b0 b1 b2 b3 b4 b5 b6 b7 b8 b9 b10 b11 b12 b13 b14 b15 : Nat) (hs : V6.scanRuns [b0 * 256 + b1, b2 * 256 + b3, b4 * 256 + b5, b6 * 256 + b7, b8 * 256 + b9, b10 * 256 + b11, b12 * 256 + b13, b14 * 256 + b15] 0 none none = some (2, 6)) :
    V6.ntop6 [b0, b1, b2, b3, b4, b5, b6, b7, b8, b9, b10, b11, b12, b13, b14, b15] = groupC [b0 * 256 + b1, b2 * 256 + b3] ++ 58 :: joinHex [] := by
  simp [V6.ntop6, V6.words, hs, V6.fmtLoop, V6.inBest, V6.isEncapsulatedV4, groupC, joinHex]

theorem rt_2_6 (b0 b1 b2 b3 b4 b5 b6 b7 b8 b9 b10 b11 b12 b13 b14 b15 : Nat) (hb0 : b0 < 256) (hb1 : b1 < 256) (hb2 : b2 < 256) (hb3 : b3 < 256) (hb4 : b4 < 256) (hb5 : b5 < 256) (hb6 : b6 < 256) (hb7 : b7 < 256) (hb8 : b8 < 256) (hb9 : b9 < 256) (hb10 : b10 < 256) (hb11 : b11 < 256) (hb12 : b12 < 256) (hb13 : b13 < 256) (hb14 : b14 < 256) (hb15 : b15 < 256) (hs : V6.scanRuns [b0 * 256 + b1, b2 * 256 + b3, b4 * 256 + b5, b6 * 256 + b7, b8 * 256 + b9, b10 * 256 + b11, b12 * 256 + b13, b14 * 256 + b15] 0 none none = some (2, 6)) (hok : RunOK (decide (b0 * 256 + b1 = 0)) (decide (b2 * 256 + b3 = 0)) (decide (b4 * 256 + b5 = 0)) (decide (b6 * 256 + b7 = 0)) (decide (b8 * 256 + b9 = 0)) (decide (b10 * 256 + b11 = 0)) (decide (b12 * 256 + b13 = 0)) (decide (b14 * 256 + b15 = 0)) (some (2, 6)) = true) :
    V6.pton6 (V6.ntop6 [b0, b1, b2, b3, b4, b5, b6, b7, b8, b9, b10, b11, b12, b13, b14, b15]) = some [b0, b1, b2, b3, b4, b5, b6, b7, b8, b9, b10, b11, b12, b13, b14, b15] := by
  simp [RunOK] at hok
  have z4 : b4 = 0 := by omega
  have z5 : b5 = 0 := by omega
  have z6 : b6 = 0 := by omega
  have z7 : b7 = 0 := by omega
  have z8 : b8 = 0 := by omega
  have z9 : b9 = 0 := by omega
  have z10 : b10 = 0 := by omega
  have z11 : b11 = 0 := by omega
  have z12 : b12 = 0 := by omega
  have z13 : b13 = 0 := by omega
  have z14 : b14 = 0 := by omega
  have z15 : b15 = 0 := by omega
  have s0 : V6.store16 (b0 * 256 + b1) = [b0, b1] := by simp only [V6.store16, List.cons.injEq, and_true]; omega
  have s1 : V6.store16 (b2 * 256 + b3) = [b2, b3] := by simp only [V6.store16, List.cons.injEq, and_true]; omega
  have s2 : V6.store16 (b4 * 256 + b5) = [b4, b5] := by simp only [V6.store16, List.cons.injEq, and_true]; omega
  have s3 : V6.store16 (b6 * 256 + b7) = [b6, b7] := by simp only [V6.store16, List.cons.injEq, and_true]; omega
  have s4 : V6.store16 (b8 * 256 + b9) = [b8, b9] := by simp only [V6.store16, List.cons.injEq, and_true]; omega
  have s5 : V6.store16 (b10 * 256 + b11) = [b10, b11] := by simp only [V6.store16, List.cons.injEq, and_true]; omega
  have s6 : V6.store16 (b12 * 256 + b13) = [b12, b13] := by simp only [V6.store16, List.cons.injEq, and_true]; omega
  have s7 : V6.store16 (b14 * 256 + b15) = [b14, b15] := by simp only [V6.store16, List.cons.injEq, and_true]; omega
  rw [ntop6_2_6 _ _ _ _ _ _ _ _ _ _ _ _ _ _ _ _ hs, pton6_mid _ _ _ (by intro x hx; simp only [List.mem_cons, List.not_mem_nil, or_false] at hx <;> omega) (by intro x hx; simp only [List.mem_cons, List.not_mem_nil, or_false] at hx <;> omega) (by simp)]
  simp [bytes, s0, s1, s2, s3, s4, s5, s6, s7, z4, z5, z6, z7, z8, z9, z10, z11, z12, z13, z14, z15]

theorem ntop6_3_2 (b0 b1 b2 b3 b4 b5 b6 b7 b8 b9 b10 b11 b12 b13 b14 b15 : Nat) (hs : V6.scanRuns [b0 * 256 + b1, b2 * 256 + b3, b4 * 256 + b5, b6 * 256 + b7, b8 * 256 + b9, b10 * 256 + b11, b12 * 256 + b13, b14 * 256 + b15] 0 none none = some (3, 2)) :
    V6.ntop6 [b0, b1, b2, b3, b4, b5, b6, b7, b8, b9, b10, b11, b12, b13, b14, b15] = groupC [b0 * 256 + b1, b2 * 256 + b3, b4 * 256 + b5] ++ 58 :: joinHex [b10 * 256 + b11, b12 * 256 + b13, b14 * 256 + b15] := by
  simp [V6.ntop6, V6.words, hs, V6.fmtLoop, V6.inBest, V6.isEncapsulatedV4, groupC, joinHex]

theorem rt_3_2 (b0 b1 b2 b3 b4 b5 b6 b7 b8 b9 b10 b11 b12 b13 b14 b15 : Nat) (hb0 : b0 < 256) (hb1 : b1 < 256) (hb2 : b2 < 256) (hb3 : b3 < 256) (hb4 : b4 < 256) (hb5 : b5 < 256) (hb6 : b6 < 256) (hb7 : b7 < 256) (hb8 : b8 < 256) (hb9 : b9 < 256) (hb10 : b10 < 256) (hb11 : b11 < 256) (hb12 : b12 < 256) (hb13 : b13 < 256) (hb14 : b14 < 256) (hb15 : b15 < 256) (hs : V6.scanRuns [b0 * 256 + b1, b2 * 256 + b3, b4 * 256 + b5, b6 * 256 + b7, b8 * 256 + b9, b10 * 256 + b11, b12 * 256 + b13, b14 * 256 + b15] 0 none none = some (3, 2)) (hok : RunOK (decide (b0 * 256 + b1 = 0)) (decide (b2 * 256 + b3 = 0)) (decide (b4 * 256 + b5 = 0)) (decide (b6 * 256 + b7 = 0)) (decide (b8 * 256 + b9 = 0)) (decide (b10 * 256 + b11 = 0)) (decide (b12 * 256 + b13 = 0)) (decide (b14 * 256 + b15 = 0)) (some (3, 2)) = true) :
    V6.pton6 (V6.ntop6 [b0, b1, b2, b3, b4, b5, b6, b7, b8, b9, b10, b11, b12, b13, b14, b15]) = some [b0, b1, b2, b3, b4, b5, b6, b7, b8, b9, b10, b11, b12, b13, b14, b15] := by
  simp [RunOK] at hok
  have z6 : b6 = 0 := by omega
  have z7 : b7 = 0 := by omega
  have z8 : b8 = 0 := by omega
  have z9 : b9 = 0 := by omega
  have s0 : V6.store16 (b0 * 256 + b1) = [b0, b1] := by simp only [V6.store16, List.cons.injEq, and_true]; omega
  have s1 : V6.store16 (b2 * 256 + b3) = [b2, b3] := by simp only [V6.store16, List.cons.injEq, and_true]; omega
  have s2 : V6.store16 (b4 * 256 + b5) = [b4, b5] := by simp only [V6.store16, List.cons.injEq, and_true]; omega
  have s3 : V6.store16 (b6 * 256 + b7) = [b6, b7] := by simp only [V6.store16, List.cons.injEq, and_true]; omega
  have s4 : V6.store16 (b8 * 256 + b9) = [b8, b9] := by simp only [V6.store16, List.cons.injEq, and_true]; omega
  have s5 : V6.store16 (b10 * 256 + b11) = [b10, b11] := by simp only [V6.store16, List.cons.injEq, and_true]; omega
  have s6 : V6.store16 (b12 * 256 + b13) = [b12, b13] := by simp only [V6.store16, List.cons.injEq, and_true]; omega
  have s7 : V6.store16 (b14 * 256 + b15) = [b14, b15] := by simp only [V6.store16, List.cons.injEq, and_true]; omega
  rw [ntop6_3_2 _ _ _ _ _ _ _ _ _ _ _ _ _ _ _ _ hs, pton6_mid _ _ _ (by intro x hx; simp only [List.mem_cons, List.not_mem_nil, or_false] at hx <;> omega) (by intro x hx; simp only [List.mem_cons, List.not_mem_nil, or_false] at hx <;> omega) (by simp)]
  simp [bytes, s0, s1, s2, s3, s4, s5, s6, s7, z6, z7, z8, z9]

theorem ntop6_3_3 (b0 b1 b2 b3 b4 b5 b6 b7 b8 b9 b10 b11 b12 b13 b14 b15 : Nat) (hs : V6.scanRuns [b0 * 256 + b1, b2 * 256 + b3, b4 * 256 + b5, b6 * 256 + b7, b8 * 256 + b9, b10 * 256 + b11, b12 * 256 + b13, b14 * 256 + b15] 0 none none = some (3, 3)) :
    V6.ntop6 [b0, b1, b2, b3, b4, b5, b6, b7, b8, b9, b10, b11, b12, b13, b14, b15] = groupC [b0 * 256 + b1, b2 * 256 + b3, b4 * 256 + b5] ++ 58 :: joinHex [b12 * 256 + b13, b14 * 256 + b15] := by
  simp [V6.ntop6, V6.words, hs, V6.fmtLoop, V6.inBest, V6.isEncapsulatedV4, groupC, joinHex]

theorem rt_3_3 (b0 b1 b2 b3 b4 b5 b6 b7 b8 b9 b10 b11 b12 b13 b14 b15 : Nat) (hb0 : b0 < 256) (hb1 : b1 < 256) (hb2 : b2 < 256) (hb3 : b3 < 256) (hb4 : b4 < 256) (hb5 : b5 < 256) (hb6 : b6 < 256) (hb7 : b7 < 256) (hb8 : b8 < 256) (hb9 : b9 < 256) (hb10 : b10 < 256) (hb11 : b11 < 256) (hb12 : b12 < 256) (hb13 : b13 < 256) (hb14 : b14 < 256) (hb15 : b15 < 256) (hs : V6.scanRuns [b0 * 256 + b1, b2 * 256 + b3, b4 * 256 + b5, b6 * 256 + b7, b8 * 256 + b9, b10 * 256 + b11, b12 * 256 + b13, b14 * 256 + b15] 0 none none = some (3, 3)) (hok : RunOK (decide (b0 * 256 + b1 = 0)) (decide (b2 * 256 + b3 = 0)) (decide (b4 * 256 + b5 = 0)) (decide (b6 * 256 + b7 = 0)) (decide (b8 * 256 + b9 = 0)) (decide (b10 * 256 + b11 = 0)) (decide (b12 * 256 + b13 = 0)) (decide (b14 * 256 + b15 = 0)) (some (3, 3)) = true) :
    V6.pton6 (V6.ntop6 [b0, b1, b2, b3, b4, b5, b6, b7, b8, b9, b10, b11, b12, b13, b14, b15]) = some [b0, b1, b2, b3, b4, b5, b6, b7, b8, b9, b10, b11, b12, b13, b14, b15] := by
  simp [RunOK] at hok
  have z6 : b6 = 0 := by omega
  have z7 : b7 = 0 := by omega
  have z8 : b8 = 0 := by omega
  have z9 : b9 = 0 := by omega
  have z10 : b10 = 0 := by omega
  have z11 : b11 = 0 := by omega
  have s0 : V6.store16 (b0 * 256 + b1) = [b0, b1] := by simp only [V6.store16, List.cons.injEq, and_true]; omega
  have s1 : V6.store16 (b2 * 256 + b3) = [b2, b3] := by simp only [V6.store16, List.cons.injEq, and_true]; omega
  have s2 : V6.store16 (b4 * 256 + b5) = [b4, b5] := by simp only [V6.store16, List.cons.injEq, and_true]; omega
  have s3 : V6.store16 (b6 * 256 + b7) = [b6, b7] := by simp only [V6.store16, List.cons.injEq, and_true]; omega
  have s4 : V6.store16 (b8 * 256 + b9) = [b8, b9] := by simp only [V6.store16, List.cons.injEq, and_true]; omega
  have s5 : V6.store16 (b10 * 256 + b11) = [b10, b11] := by simp only [V6.store16, List.cons.injEq, and_true]; omega
  have s6 : V6.store16 (b12 * 256 + b13) = [b12, b13] := by simp only [V6.store16, List.cons.injEq, and_true]; omega
  have s7 : V6.store16 (b14 * 256 + b15) = [b14, b15] := by simp only [V6.store16, List.cons.injEq, and_true]; omega
  rw [ntop6_3_3 _ _ _ _ _ _ _ _ _ _ _ _ _ _ _ _ hs, pton6_mid _ _ _ (by intro x hx; simp only [List.mem_cons, List.not_mem_nil, or_false] at hx <;> omega) (by intro x hx; simp only [List.mem_cons, List.not_mem_nil, or_false] at hx <;> omega) (by simp)]
  simp [bytes, s0, s1, s2, s3, s4, s5, s6, s7, z6, z7, z8, z9, z10, z11]

theorem ntop6_3_4 (b0 b1 b2 b3 b4 b5 b6 b7 b8 b9 b10 b11 b12 b13 b14 b15 : Nat) (hs : V6.scanRuns [b0 * 256 + b1, b2 * 256 + b3, b4 * 256 + b5, b6 * 256 + b7, b8 * 256 + b9, b10 * 256 + b11, b12 * 256 + b13, b14 * 256 + b15] 0 none none = some (3, 4)) :
    V6.ntop6 [b0, b1, b2, b3, b4, b5, b6, b7, b8, b9, b10, b11, b12, b13, b14, b15] = groupC [b0 * 256 + b1, b2 * 256 + b3, b4 * 256 + b5] ++ 58 :: joinHex [b14 * 256 + b15] := by
  simp [V6.ntop6, V6.words, hs, V6.fmtLoop, V6.inBest, V6.isEncapsulatedV4, groupC, joinHex]

theorem rt_3_4 (b0 b1 b2 b3 b4 b5 b6 b7 b8 b9 b10 b11 b12 b13 b14 b15 : Nat) (hb0 : b0 < 256) (hb1 : b1 < 256) (hb2 : b2 < 256) (hb3 : b3 < 256) (hb4 : b4 < 256) (hb5 : b5 < 256) (hb6 : b6 < 256) (hb7 : b7 < 256) (hb8 : b8 < 256) (hb9 : b9 < 256) (hb10 : b10 < 256) (hb11 : b11 < 256) (hb12 : b12 < 256) (hb13 : b13 < 256) (hb14 : b14 < 256) (hb15 : b15 < 256) (hs : V6.scanRuns [b0 * 256 + b1, b2 * 256 + b3, b4 * 256 + b5, b6 * 256 + b7, b8 * 256 + b9, b10 * 256 + b11, b12 * 256 + b13, b14 * 256 + b15] 0 none none = some (3, 4)) (hok : RunOK (decide (b0 * 256 + b1 = 0)) (decide (b2 * 256 + b3 = 0)) (decide (b4 * 256 + b5 = 0)) (decide (b6 * 256 + b7 = 0)) (decide (b8 * 256 + b9 = 0)) (decide (b10 * 256 + b11 = 0)) (decide (b12 * 256 + b13 = 0)) (decide (b14 * 256 + b15 = 0)) (some (3, 4)) = true) :
    V6.pton6 (V6.ntop6 [b0, b1, b2, b3, b4, b5, b6, b7, b8, b9, b10, b11, b12, b13, b14, b15]) = some [b0, b1, b2, b3, b4, b5, b6, b7, b8, b9, b10, b11, b12, b13, b14, b15] := by
  simp [RunOK] at hok
  have z6 : b6 = 0 := by omega
  have z7 : b7 = 0 := by omega
  have z8 : b8 = 0 := by omega
  have z9 : b9 = 0 := by omega
  have z10 : b10 = 0 := by omega
  have z11 : b11 = 0 := by omega
  have z12 : b12 = 0 := by omega
  have z13 : b13 = 0 := by omega
  have s0 : V6.store16 (b0 * 256 + b1) = [b0, b1] := by simp only [V6.store16, List.cons.injEq, and_true]; omega
  have s1 : V6.store16 (b2 * 256 + b3) = [b2, b3] := by simp only [V6.store16, List.cons.injEq, and_true]; omega
  have s2 : V6.store16 (b4 * 256 + b5) = [b4, b5] := by simp only [V6.store16, List.cons.injEq, and_true]; omega
  have s3 : V6.store16 (b6 * 256 + b7) = [b6, b7] := by simp only [V6.store16, List.cons.injEq, and_true]; omega
  have s4 : V6.store16 (b8 * 256 + b9) = [b8, b9] := by simp only [V6.store16, List.cons.injEq, and_true]; omega
  have s5 : V6.store16 (b10 * 256 + b11) = [b10, b11] := by simp only [V6.store16, List.cons.injEq, and_true]; omega
  have s6 : V6.store16 (b12 * 256 + b13) = [b12, b13] := by simp only [V6.store16, List.cons.injEq, and_true]; omega
  have s7 : V6.store16 (b14 * 256 + b15) = [b14, b15] := by simp only [V6.store16, List.cons.injEq, and_true]; omega
  rw [ntop6_3_4 _ _ _ _ _ _ _ _ _ _ _ _ _ _ _ _ hs, pton6_mid _ _ _ (by intro x hx; simp only [List.mem_cons, List.not_mem_nil, or_false] at hx <;> omega) (by intro x hx; simp only [List.mem_cons, List.not_mem_nil, or_false] at hx <;> omega) (by simp)]
  simp [bytes, s0, s1, s2, s3, s4, s5, s6, s7, z6, z7, z8, z9, z10, z11, z12, z13]

theorem ntop6_3_5 (b0 b1 b2 b3 b4 b5 b6 b7 b8 b9 b10 b11 b12 b13 b14 b15 : Nat) (hs : V6.scanRuns [b0 * 256 + b1, b2 * 256 + b3, b4 * 256 + b5, b6 * 256 + b7, b8 * 256 + b9, b10 * 256 + b11, b12 * 256 + b13, b14 * 256 + b15] 0 none none = some (3, 5)) :
    V6.ntop6 [b0, b1, b2, b3, b4, b5, b6, b7, b8, b9, b10, b11, b12, b13, b14, b15] = groupC [b0 * 256 + b1, b2 * 256 + b3, b4 * 256 + b5] ++ 58 :: joinHex [] := by
  simp [V6.ntop6, V6.words, hs, V6.fmtLoop, V6.inBest, V6.isEncapsulatedV4, groupC, joinHex]

theorem rt_3_5 (b0 b1 b2 b3 b4 b5 b6 b7 b8 b9 b10 b11 b12 b13 b14 b15 : Nat) (hb0 : b0 < 256) (hb1 : b1 < 256) (hb2 : b2 < 256) (hb3 : b3 < 256) (hb4 : b4 < 256) (hb5 : b5 < 256) (hb6 : b6 < 256) (hb7 : b7 < 256) (hb8 : b8 < 256) (hb9 : b9 < 256) (hb10 : b10 < 256) (hb11 : b11 < 256) (hb12 : b12 < 256) (hb13 : b13 < 256) (hb14 : b14 < 256) (hb15 : b15 < 256) (hs : V6.scanRuns [b0 * 256 + b1, b2 * 256 + b3, b4 * 256 + b5, b6 * 256 + b7, b8 * 256 + b9, b10 * 256 + b11, b12 * 256 + b13, b14 * 256 + b15] 0 none none = some (3, 5)) (hok : RunOK (decide (b0 * 256 + b1 = 0)) (decide (b2 * 256 + b3 = 0)) (decide (b4 * 256 + b5 = 0)) (decide (b6 * 256 + b7 = 0)) (decide (b8 * 256 + b9 = 0)) (decide (b10 * 256 + b11 = 0)) (decide (b12 * 256 + b13 = 0)) (decide (b14 * 256 + b15 = 0)) (some (3, 5)) = true) :
    V6.pton6 (V6.ntop6 [b0, b1, b2, b3, b4, b5, b6, b7, b8, b9, b10, b11, b12, b13, b14, b15]) = some [b0, b1, b2, b3, b4, b5, b6, b7, b8, b9, b10, b11, b12, b13, b14, b15] := by
  simp [RunOK] at hok
  have z6 : b6 = 0 := by omega
  have z7 : b7 = 0 := by omega
  have z8 : b8 = 0 := by omega
  have z9 : b9 = 0 := by omega
  have z10 : b10 = 0 := by omega
  have z11 : b11 = 0 := by omega
  have z12 : b12 = 0 := by omega
  have z13 : b13 = 0 := by omega
  have z14 : b14 = 0 := by omega
  have z15 : b15 = 0 := by omega
  have s0 : V6.store16 (b0 * 256 + b1) = [b0, b1] := by simp only [V6.store16, List.cons.injEq, and_true]; omega
  have s1 : V6.store16 (b2 * 256 + b3) = [b2, b3] := by simp only [V6.store16, List.cons.injEq, and_true]; omega
  have s2 : V6.store16 (b4 * 256 + b5) = [b4, b5] := by simp only [V6.store16, List.cons.injEq, and_true]; omega
  have s3 : V6.store16 (b6 * 256 + b7) = [b6, b7] := by simp only [V6.store16, List.cons.injEq, and_true]; omega
  have s4 : V6.store16 (b8 * 256 + b9) = [b8, b9] := by simp only [V6.store16, List.cons.injEq, and_true]; omega
  have s5 : V6.store16 (b10 * 256 + b11) = [b10, b11] := by simp only [V6.store16, List.cons.injEq, and_true]; omega
  have s6 : V6.store16 (b12 * 256 + b13) = [b12, b13] := by simp only [V6.store16, List.cons.injEq, and_true]; omega
  have s7 : V6.store16 (b14 * 256 + b15) = [b14, b15] := by simp only [V6.store16, List.cons.injEq, and_true]; omega
  rw [ntop6_3_5 _ _ _ _ _ _ _ _ _ _ _ _ _ _ _ _ hs, pton6_mid _ _ _ (by intro x hx; simp only [List.mem_cons, List.not_mem_nil, or_false] at hx <;> omega) (by intro x hx; simp only [List.mem_cons, List.not_mem_nil, or_false] at hx <;> omega) (by simp)]
  simp [bytes, s0, s1, s2, s3, s4, s5, s6, s7, z6, z7, z8, z9, z10, z11, z12, z13, z14, z15]

theorem ntop6_4_2 (b0 b1 b2 b3 b4 b5 b6 b7 b8 b9 b10 b11 b12 b13 b14 b15 : Nat) (hs : V6.scanRuns [b0 * 256 + b1, b2 * 256 + b3, b4 * 256 + b5, b6 * 256 + b7, b8 * 256 + b9, b10 * 256 + b11, b12 * 256 + b13, b14 * 256 + b15] 0 none none = some (4, 2)) :
    V6.ntop6 [b0, b1, b2, b3, b4, b5, b6, b7, b8, b9, b10, b11, b12, b13, b14, b15] = groupC [b0 * 256 + b1, b2 * 256 + b3, b4 * 256 + b5, b6 * 256 + b7] ++ 58 :: joinHex [b12 * 256 + b13, b14 * 256 + b15] := by
  simp [V6.ntop6, V6.words, hs, V6.fmtLoop, V6.inBest, V6.isEncapsulatedV4, groupC, joinHex]

theorem rt_4_2 (b0 b1 b2 b3 b4 b5 b6 b7 b8 b9 b10 b11 b12 b13 b14 b15 : Nat) (hb0 : b0 < 256) (hb1 : b1 < 256) (hb2 : b2 < 256) (hb3 : b3 < 256) (hb4 : b4 < 256) (hb5 : b5 < 256) (hb6 : b6 < 256) (hb7 : b7 < 256) (hb8 : b8 < 256) (hb9 : b9 < 256) (hb10 : b10 < 256) (hb11 : b11 < 256) (hb12 : b12 < 256) (hb13 : b13 < 256) (hb14 : b14 < 256) (hb15 : b15 < 256) (hs : V6.scanRuns [b0 * 256 + b1, b2 * 256 + b3, b4 * 256 + b5, b6 * 256 + b7, b8 * 256 + b9, b10 * 256 + b11, b12 * 256 + b13, b14 * 256 + b15] 0 none none = some (4, 2)) (hok : RunOK (decide (b0 * 256 + b1 = 0)) (decide (b2 * 256 + b3 = 0)) (decide (b4 * 256 + b5 = 0)) (decide (b6 * 256 + b7 = 0)) (decide (b8 * 256 + b9 = 0)) (decide (b10 * 256 + b11 = 0)) (decide (b12 * 256 + b13 = 0)) (decide (b14 * 256 + b15 = 0)) (some (4, 2)) = true) :
    V6.pton6 (V6.ntop6 [b0, b1, b2, b3, b4, b5, b6, b7, b8, b9, b10, b11, b12, b13, b14, b15]) = some [b0, b1, b2, b3, b4, b5, b6, b7, b8, b9, b10, b11, b12, b13, b14, b15] := by
  simp [RunOK] at hok
  have z8 : b8 = 0 := by omega
  have z9 : b9 = 0 := by omega
  have z10 : b10 = 0 := by omega
  have z11 : b11 = 0 := by omega
  have s0 : V6.store16 (b0 * 256 + b1) = [b0, b1] := by simp only [V6.store16, List.cons.injEq, and_true]; omega
  have s1 : V6.store16 (b2 * 256 + b3) = [b2, b3] := by simp only [V6.store16, List.cons.injEq, and_true]; omega
  have s2 : V6.store16 (b4 * 256 + b5) = [b4, b5] := by simp only [V6.store16, List.cons.injEq, and_true]; omega
  have s3 : V6.store16 (b6 * 256 + b7) = [b6, b7] := by simp only [V6.store16, List.cons.injEq, and_true]; omega
  have s4 : V6.store16 (b8 * 256 + b9) = [b8, b9] := by simp only [V6.store16, List.cons.injEq, and_true]; omega
  have s5 : V6.store16 (b10 * 256 + b11) = [b10, b11] := by simp only [V6.store16, List.cons.injEq, and_true]; omega
  have s6 : V6.store16 (b12 * 256 + b13) = [b12, b13] := by simp only [V6.store16, List.cons.injEq, and_true]; omega
  have s7 : V6.store16 (b14 * 256 + b15) = [b14, b15] := by simp only [V6.store16, List.cons.injEq, and_true]; omega
  rw [ntop6_4_2 _ _ _ _ _ _ _ _ _ _ _ _ _ _ _ _ hs, pton6_mid _ _ _ (by intro x hx; simp only [List.mem_cons, List.not_mem_nil, or_false] at hx <;> omega) (by intro x hx; simp only [List.mem_cons, List.not_mem_nil, or_false] at hx <;> omega) (by simp)]
  simp [bytes, s0, s1, s2, s3, s4, s5, s6, s7, z8, z9, z10, z11]

theorem ntop6_4_3 (b0 b1 b2 b3 b4 b5 b6 b7 b8 b9 b10 b11 b12 b13 b14 b15 : Nat) (hs : V6.scanRuns [b0 * 256 + b1, b2 * 256 + b3, b4 * 256 + b5, b6 * 256 + b7, b8 * 256 + b9, b10 * 256 + b11, b12 * 256 + b13, b14 * 256 + b15] 0 none none = some (4, 3)) :
    V6.ntop6 [b0, b1, b2, b3, b4, b5, b6, b7, b8, b9, b10, b11, b12, b13, b14, b15] = groupC [b0 * 256 + b1, b2 * 256 + b3, b4 * 256 + b5, b6 * 256 + b7] ++ 58 :: joinHex [b14 * 256 + b15] := by
  simp [V6.ntop6, V6.words, hs, V6.fmtLoop, V6.inBest, V6.isEncapsulatedV4, groupC, joinHex]

theorem rt_4_3 (b0 b1 b2 b3 b4 b5 b6 b7 b8 b9 b10 b11 b12 b13 b14 b15 : Nat) (hb0 : b0 < 256) (hb1 : b1 < 256) (hb2 : b2 < 256) (hb3 : b3 < 256) (hb4 : b4 < 256) (hb5 : b5 < 256) (hb6 : b6 < 256) (hb7 : b7 < 256) (hb8 : b8 < 256) (hb9 : b9 < 256) (hb10 : b10 < 256) (hb11 : b11 < 256) (hb12 : b12 < 256) (hb13 : b13 < 256) (hb14 : b14 < 256) (hb15 : b15 < 256) (hs : V6.scanRuns [b0 * 256 + b1, b2 * 256 + b3, b4 * 256 + b5, b6 * 256 + b7, b8 * 256 + b9, b10 * 256 + b11, b12 * 256 + b13, b14 * 256 + b15] 0 none none = some (4, 3)) (hok : RunOK (decide (b0 * 256 + b1 = 0)) (decide (b2 * 256 + b3 = 0)) (decide (b4 * 256 + b5 = 0)) (decide (b6 * 256 + b7 = 0)) (decide (b8 * 256 + b9 = 0)) (decide (b10 * 256 + b11 = 0)) (decide (b12 * 256 + b13 = 0)) (decide (b14 * 256 + b15 = 0)) (some (4, 3)) = true) :
    V6.pton6 (V6.ntop6 [b0, b1, b2, b3, b4, b5, b6, b7, b8, b9, b10, b11, b12, b13, b14, b15]) = some [b0, b1, b2, b3, b4, b5, b6, b7, b8, b9, b10, b11, b12, b13, b14, b15] := by
  simp [RunOK] at hok
  have z8 : b8 = 0 := by omega
  have z9 : b9 = 0 := by omega
  have z10 : b10 = 0 := by omega
  have z11 : b11 = 0 := by omega
  have z12 : b12 = 0 := by omega
  have z13 : b13 = 0 := by omega
  have s0 : V6.store16 (b0 * 256 + b1) = [b0, b1] := by simp only [V6.store16, List.cons.injEq, and_true]; omega
  have s1 : V6.store16 (b2 * 256 + b3) = [b2, b3] := by simp only [V6.store16, List.cons.injEq, and_true]; omega
  have s2 : V6.store16 (b4 * 256 + b5) = [b4, b5] := by simp only [V6.store16, List.cons.injEq, and_true]; omega
  have s3 : V6.store16 (b6 * 256 + b7) = [b6, b7] := by simp only [V6.store16, List.cons.injEq, and_true]; omega
  have s4 : V6.store16 (b8 * 256 + b9) = [b8, b9] := by simp only [V6.store16, List.cons.injEq, and_true]; omega
  have s5 : V6.store16 (b10 * 256 + b11) = [b10, b11] := by simp only [V6.store16, List.cons.injEq, and_true]; omega
  have s6 : V6.store16 (b12 * 256 + b13) = [b12, b13] := by simp only [V6.store16, List.cons.injEq, and_true]; omega
  have s7 : V6.store16 (b14 * 256 + b15) = [b14, b15] := by simp only [V6.store16, List.cons.injEq, and_true]; omega
  rw [ntop6_4_3 _ _ _ _ _ _ _ _ _ _ _ _ _ _ _ _ hs, pton6_mid _ _ _ (by intro x hx; simp only [List.mem_cons, List.not_mem_nil, or_false] at hx <;> omega) (by intro x hx; simp only [List.mem_cons, List.not_mem_nil, or_false] at hx <;> omega) (by simp)]
  simp [bytes, s0, s1, s2, s3, s4, s5, s6, s7, z8, z9, z10, z11, z12, z13]

theorem ntop6_4_4 (b0 b1 b2 b3 b4 b5 b6 b7 b8 b9 b10 b11 b12 b13 b14 b15 : Nat) (hs : V6.scanRuns [b0 * 256 + b1, b2 * 256 + b3, b4 * 256 + b5, b6 * 256 + b7, b8 * 256 + b9, b10 * 256 + b11, b12 * 256 + b13, b14 * 256 + b15] 0 none none = some (4, 4)) :
    V6.ntop6 [b0, b1, b2, b3, b4, b5, b6, b7, b8, b9, b10, b11, b12, b13, b14, b15] = groupC [b0 * 256 + b1, b2 * 256 + b3, b4 * 256 + b5, b6 * 256 + b7] ++ 58 :: joinHex [] := by
  simp [V6.ntop6, V6.words, hs, V6.fmtLoop, V6.inBest, V6.isEncapsulatedV4, groupC, joinHex]

theorem rt_4_4 (b0 b1 b2 b3 b4 b5 b6 b7 b8 b9 b10 b11 b12 b13 b14 b15 : Nat) (hb0 : b0 < 256) (hb1 : b1 < 256) (hb2 : b2 < 256) (hb3 : b3 < 256) (hb4 : b4 < 256) (hb5 : b5 < 256) (hb6 : b6 < 256) (hb7 : b7 < 256) (hb8 : b8 < 256) (hb9 : b9 < 256) (hb10 : b10 < 256) (hb11 : b11 < 256) (hb12 : b12 < 256) (hb13 : b13 < 256) (hb14 : b14 < 256) (hb15 : b15 < 256) (hs : V6.scanRuns [b0 * 256 + b1, b2 * 256 + b3, b4 * 256 + b5, b6 * 256 + b7, b8 * 256 + b9, b10 * 256 + b11, b12 * 256 + b13, b14 * 256 + b15] 0 none none = some (4, 4)) (hok : RunOK (decide (b0 * 256 + b1 = 0)) (decide (b2 * 256 + b3 = 0)) (decide (b4 * 256 + b5 = 0)) (decide (b6 * 256 + b7 = 0)) (decide (b8 * 256 + b9 = 0)) (decide (b10 * 256 + b11 = 0)) (decide (b12 * 256 + b13 = 0)) (decide (b14 * 256 + b15 = 0)) (some (4, 4)) = true) :
    V6.pton6 (V6.ntop6 [b0, b1, b2, b3, b4, b5, b6, b7, b8, b9, b10, b11, b12, b13, b14, b15]) = some [b0, b1, b2, b3, b4, b5, b6, b7, b8, b9, b10, b11, b12, b13, b14, b15] := by
  simp [RunOK] at hok
  have z8 : b8 = 0 := by omega
  have z9 : b9 = 0 := by omega
  have z10 : b10 = 0 := by omega
  have z11 : b11 = 0 := by omega
  have z12 : b12 = 0 := by omega
  have z13 : b13 = 0 := by omega
  have z14 : b14 = 0 := by omega
  have z15 : b15 = 0 := by omega
  have s0 : V6.store16 (b0 * 256 + b1) = [b0, b1] := by simp only [V6.store16, List.cons.injEq, and_true]; omega
  have s1 : V6.store16 (b2 * 256 + b3) = [b2, b3] := by simp only [V6.store16, List.cons.injEq, and_true]; omega
  have s2 : V6.store16 (b4 * 256 + b5) = [b4, b5] := by simp only [V6.store16, List.cons.injEq, and_true]; omega
  have s3 : V6.store16 (b6 * 256 + b7) = [b6, b7] := by simp only [V6.store16, List.cons.injEq, and_true]; omega
  have s4 : V6.store16 (b8 * 256 + b9) = [b8, b9] := by simp only [V6.store16, List.cons.injEq, and_true]; omega
  have s5 : V6.store16 (b10 * 256 + b11) = [b10, b11] := by simp only [V6.store16, List.cons.injEq, and_true]; omega
  have s6 : V6.store16 (b12 * 256 + b13) = [b12, b13] := by simp only [V6.store16, List.cons.injEq, and_true]; omega
  have s7 : V6.store16 (b14 * 256 + b15) = [b14, b15] := by simp only [V6.store16, List.cons.injEq, and_true]; omega
  rw [ntop6_4_4 _ _ _ _ _ _ _ _ _ _ _ _ _ _ _ _ hs, pton6_mid _ _ _ (by intro x hx; simp only [List.mem_cons, List.not_mem_nil, or_false] at hx <;> omega) (by intro x hx; simp only [List.mem_cons, List.not_mem_nil, or_false] at hx <;> omega) (by simp)]
  simp [bytes, s0, s1, s2, s3, s4, s5, s6, s7, z8, z9, z10, z11, z12, z13, z14, z15]

theorem ntop6_5_2 (b0 b1 b2 b3 b4 b5 b6 b7 b8 b9 b10 b11 b12 b13 b14 b15 : Nat) (hs : V6.scanRuns [b0 * 256 + b1, b2 * 256 + b3, b4 * 256 + b5, b6 * 256 + b7, b8 * 256 + b9, b10 * 256 + b11, b12 * 256 + b13, b14 * 256 + b15] 0 none none = some (5, 2)) :
    V6.ntop6 [b0, b1, b2, b3, b4, b5, b6, b7, b8, b9, b10, b11, b12, b13, b14, b15] = groupC [b0 * 256 + b1, b2 * 256 + b3, b4 * 256 + b5, b6 * 256 + b7, b8 * 256 + b9] ++ 58 :: joinHex [b14 * 256 + b15] := by
  simp [V6.ntop6, V6.words, hs, V6.fmtLoop, V6.inBest, V6.isEncapsulatedV4, groupC, joinHex]

theorem rt_5_2 (b0 b1 b2 b3 b4 b5 b6 b7 b8 b9 b10 b11 b12 b13 b14 b15 : Nat) (hb0 : b0 < 256) (hb1 : b1 < 256) (hb2 : b2 < 256) (hb3 : b3 < 256) (hb4 : b4 < 256) (hb5 : b5 < 256) (hb6 : b6 < 256) (hb7 : b7 < 256) (hb8 : b8 < 256) (hb9 : b9 < 256) (hb10 : b10 < 256) (hb11 : b11 < 256) (hb12 : b12 < 256) (hb13 : b13 < 256) (hb14 : b14 < 256) (hb15 : b15 < 256) (hs : V6.scanRuns [b0 * 256 + b1, b2 * 256 + b3, b4 * 256 + b5, b6 * 256 + b7, b8 * 256 + b9, b10 * 256 + b11, b12 * 256 + b13, b14 * 256 + b15] 0 none none = some (5, 2)) (hok : RunOK (decide (b0 * 256 + b1 = 0)) (decide (b2 * 256 + b3 = 0)) (decide (b4 * 256 + b5 = 0)) (decide (b6 * 256 + b7 = 0)) (decide (b8 * 256 + b9 = 0)) (decide (b10 * 256 + b11 = 0)) (decide (b12 * 256 + b13 = 0)) (decide (b14 * 256 + b15 = 0)) (some (5, 2)) = true) :
    V6.pton6 (V6.ntop6 [b0, b1, b2, b3, b4, b5, b6, b7, b8, b9, b10, b11, b12, b13, b14, b15]) = some [b0, b1, b2, b3, b4, b5, b6, b7, b8, b9, b10, b11, b12, b13, b14, b15] := by
  simp [RunOK] at hok
  have z10 : b10 = 0 := by omega
  have z11 : b11 = 0 := by omega
  have z12 : b12 = 0 := by omega
  have z13 : b13 = 0 := by omega
  have s0 : V6.store16 (b0 * 256 + b1) = [b0, b1] := by simp only [V6.store16, List.cons.injEq, and_true]; omega
  have s1 : V6.store16 (b2 * 256 + b3) = [b2, b3] := by simp only [V6.store16, List.cons.injEq, and_true]; omega
  have s2 : V6.store16 (b4 * 256 + b5) = [b4, b5] := by simp only [V6.store16, List.cons.injEq, and_true]; omega
  have s3 : V6.store16 (b6 * 256 + b7) = [b6, b7] := by simp only [V6.store16, List.cons.injEq, and_true]; omega
  have s4 : V6.store16 (b8 * 256 + b9) = [b8, b9] := by simp only [V6.store16, List.cons.injEq, and_true]; omega
  have s5 : V6.store16 (b10 * 256 + b11) = [b10, b11] := by simp only [V6.store16, List.cons.injEq, and_true]; omega
  have s6 : V6.store16 (b12 * 256 + b13) = [b12, b13] := by simp only [V6.store16, List.cons.injEq, and_true]; omega
  have s7 : V6.store16 (b14 * 256 + b15) = [b14, b15] := by simp only [V6.store16, List.cons.injEq, and_true]; omega
  rw [ntop6_5_2 _ _ _ _ _ _ _ _ _ _ _ _ _ _ _ _ hs, pton6_mid _ _ _ (by intro x hx; simp only [List.mem_cons, List.not_mem_nil, or_false] at hx <;> omega) (by intro x hx; simp only [List.mem_cons, List.not_mem_nil, or_false] at hx <;> omega) (by simp)]
  simp [bytes, s0, s1, s2, s3, s4, s5, s6, s7, z10, z11, z12, z13]

theorem ntop6_5_3 (b0 b1 b2 b3 b4 b5 b6 b7 b8 b9 b10 b11 b12 b13 b14 b15 : Nat) (hs : V6.scanRuns [b0 * 256 + b1, b2 * 256 + b3, b4 * 256 + b5, b6 * 256 + b7, b8 * 256 + b9, b10 * 256 + b11, b12 * 256 + b13, b14 * 256 + b15] 0 none none = some (5, 3)) :
    V6.ntop6 [b0, b1, b2, b3, b4, b5, b6, b7, b8, b9, b10, b11, b12, b13, b14, b15] = groupC [b0 * 256 + b1, b2 * 256 + b3, b4 * 256 + b5, b6 * 256 + b7, b8 * 256 + b9] ++ 58 :: joinHex [] := by
  simp [V6.ntop6, V6.words, hs, V6.fmtLoop, V6.inBest, V6.isEncapsulatedV4, groupC, joinHex]

theorem rt_5_3 (b0 b1 b2 b3 b4 b5 b6 b7 b8 b9 b10 b11 b12 b13 b14 b15 : Nat) (hb0 : b0 < 256) (hb1 : b1 < 256) (hb2 : b2 < 256) (hb3 : b3 < 256) (hb4 : b4 < 256) (hb5 : b5 < 256) (hb6 : b6 < 256) (hb7 : b7 < 256) (hb8 : b8 < 256) (hb9 : b9 < 256) (hb10 : b10 < 256) (hb11 : b11 < 256) (hb12 : b12 < 256) (hb13 : b13 < 256) (hb14 : b14 < 256) (hb15 : b15 < 256) (hs : V6.scanRuns [b0 * 256 + b1, b2 * 256 + b3, b4 * 256 + b5, b6 * 256 + b7, b8 * 256 + b9, b10 * 256 + b11, b12 * 256 + b13, b14 * 256 + b15] 0 none none = some (5, 3)) (hok : RunOK (decide (b0 * 256 + b1 = 0)) (decide (b2 * 256 + b3 = 0)) (decide (b4 * 256 + b5 = 0)) (decide (b6 * 256 + b7 = 0)) (decide (b8 * 256 + b9 = 0)) (decide (b10 * 256 + b11 = 0)) (decide (b12 * 256 + b13 = 0)) (decide (b14 * 256 + b15 = 0)) (some (5, 3)) = true) :
    V6.pton6 (V6.ntop6 [b0, b1, b2, b3, b4, b5, b6, b7, b8, b9, b10, b11, b12, b13, b14, b15]) = some [b0, b1, b2, b3, b4, b5, b6, b7, b8, b9, b10, b11, b12, b13, b14, b15] := by
  simp [RunOK] at hok
  have z10 : b10 = 0 := by omega
  have z11 : b11 = 0 := by omega
  have z12 : b12 = 0 := by omega
  have z13 : b13 = 0 := by omega
  have z14 : b14 = 0 := by omega
  have z15 : b15 = 0 := by omega
  have s0 : V6.store16 (b0 * 256 + b1) = [b0, b1] := by simp only [V6.store16, List.cons.injEq, and_true]; omega
  have s1 : V6.store16 (b2 * 256 + b3) = [b2, b3] := by simp only [V6.store16, List.cons.injEq, and_true]; omega
  have s2 : V6.store16 (b4 * 256 + b5) = [b4, b5] := by simp only [V6.store16, List.cons.injEq, and_true]; omega
  have s3 : V6.store16 (b6 * 256 + b7) = [b6, b7] := by simp only [V6.store16, List.cons.injEq, and_true]; omega
  have s4 : V6.store16 (b8 * 256 + b9) = [b8, b9] := by simp only [V6.store16, List.cons.injEq, and_true]; omega
  have s5 : V6.store16 (b10 * 256 + b11) = [b10, b11] := by simp only [V6.store16, List.cons.injEq, and_true]; omega
  have s6 : V6.store16 (b12 * 256 + b13) = [b12, b13] := by simp only [V6.store16, List.cons.injEq, and_true]; omega
  have s7 : V6.store16 (b14 * 256 + b15) = [b14, b15] := by simp only [V6.store16, List.cons.injEq, and_true]; omega
  rw [ntop6_5_3 _ _ _ _ _ _ _ _ _ _ _ _ _ _ _ _ hs, pton6_mid _ _ _ (by intro x hx; simp only [List.mem_cons, List.not_mem_nil, or_false] at hx <;> omega) (by intro x hx; simp only [List.mem_cons, List.not_mem_nil, or_false] at hx <;> omega) (by simp)]
  simp [bytes, s0, s1, s2, s3, s4, s5, s6, s7, z10, z11, z12, z13, z14, z15]

theorem ntop6_6_2 (b0 b1 b2 b3 b4 b5 b6 b7 b8 b9 b10 b11 b12 b13 b14 b15 : Nat) (hs : V6.scanRuns [b0 * 256 + b1, b2 * 256 + b3, b4 * 256 + b5, b6 * 256 + b7, b8 * 256 + b9, b10 * 256 + b11, b12 * 256 + b13, b14 * 256 + b15] 0 none none = some (6, 2)) :
    V6.ntop6 [b0, b1, b2, b3, b4, b5, b6, b7, b8, b9, b10, b11, b12, b13, b14, b15] = groupC [b0 * 256 + b1, b2 * 256 + b3, b4 * 256 + b5, b6 * 256 + b7, b8 * 256 + b9, b10 * 256 + b11] ++ 58 :: joinHex [] := by
  simp [V6.ntop6, V6.words, hs, V6.fmtLoop, V6.inBest, V6.isEncapsulatedV4, groupC, joinHex]

theorem rt_6_2 (b0 b1 b2 b3 b4 b5 b6 b7 b8 b9 b10 b11 b12 b13 b14 b15 : Nat) (hb0 : b0 < 256) (hb1 : b1 < 256) (hb2 : b2 < 256) (hb3 : b3 < 256) (hb4 : b4 < 256) (hb5 : b5 < 256) (hb6 : b6 < 256) (hb7 : b7 < 256) (hb8 : b8 < 256) (hb9 : b9 < 256) (hb10 : b10 < 256) (hb11 : b11 < 256) (hb12 : b12 < 256) (hb13 : b13 < 256) (hb14 : b14 < 256) (hb15 : b15 < 256) (hs : V6.scanRuns [b0 * 256 + b1, b2 * 256 + b3, b4 * 256 + b5, b6 * 256 + b7, b8 * 256 + b9, b10 * 256 + b11, b12 * 256 + b13, b14 * 256 + b15] 0 none none = some (6, 2)) (hok : RunOK (decide (b0 * 256 + b1 = 0)) (decide (b2 * 256 + b3 = 0)) (decide (b4 * 256 + b5 = 0)) (decide (b6 * 256 + b7 = 0)) (decide (b8 * 256 + b9 = 0)) (decide (b10 * 256 + b11 = 0)) (decide (b12 * 256 + b13 = 0)) (decide (b14 * 256 + b15 = 0)) (some (6, 2)) = true) :
    V6.pton6 (V6.ntop6 [b0, b1, b2, b3, b4, b5, b6, b7, b8, b9, b10, b11, b12, b13, b14, b15]) = some [b0, b1, b2, b3, b4, b5, b6, b7, b8, b9, b10, b11, b12, b13, b14, b15] := by
  simp [RunOK] at hok
  have z12 : b12 = 0 := by omega
  have z13 : b13 = 0 := by omega
  have z14 : b14 = 0 := by omega
  have z15 : b15 = 0 := by omega
  have s0 : V6.store16 (b0 * 256 + b1) = [b0, b1] := by simp only [V6.store16, List.cons.injEq, and_true]; omega
  have s1 : V6.store16 (b2 * 256 + b3) = [b2, b3] := by simp only [V6.store16, List.cons.injEq, and_true]; omega
  have s2 : V6.store16 (b4 * 256 + b5) = [b4, b5] := by simp only [V6.store16, List.cons.injEq, and_true]; omega
  have s3 : V6.store16 (b6 * 256 + b7) = [b6, b7] := by simp only [V6.store16, List.cons.injEq, and_true]; omega
  have s4 : V6.store16 (b8 * 256 + b9) = [b8, b9] := by simp only [V6.store16, List.cons.injEq, and_true]; omega
  have s5 : V6.store16 (b10 * 256 + b11) = [b10, b11] := by simp only [V6.store16, List.cons.injEq, and_true]; omega
  have s6 : V6.store16 (b12 * 256 + b13) = [b12, b13] := by simp only [V6.store16, List.cons.injEq, and_true]; omega
  have s7 : V6.store16 (b14 * 256 + b15) = [b14, b15] := by simp only [V6.store16, List.cons.injEq, and_true]; omega
  rw [ntop6_6_2 _ _ _ _ _ _ _ _ _ _ _ _ _ _ _ _ hs, pton6_mid _ _ _ (by intro x hx; simp only [List.mem_cons, List.not_mem_nil, or_false] at hx <;> omega) (by intro x hx; simp only [List.mem_cons, List.not_mem_nil, or_false] at hx <;> omega) (by simp)]
  simp [bytes, s0, s1, s2, s3, s4, s5, s6, s7, z12, z13, z14, z15]

/-! ### the round trip -/

theorem pton6_ntop6_bytes (b0 b1 b2 b3 b4 b5 b6 b7 b8 b9 b10 b11 b12 b13 b14 b15 : Nat) (hb0 : b0 < 256) (hb1 : b1 < 256) (hb2 : b2 < 256) (hb3 : b3 < 256) (hb4 : b4 < 256) (hb5 : b5 < 256) (hb6 : b6 < 256) (hb7 : b7 < 256) (hb8 : b8 < 256) (hb9 : b9 < 256) (hb10 : b10 < 256) (hb11 : b11 < 256) (hb12 : b12 < 256) (hb13 : b13 < 256) (hb14 : b14 < 256) (hb15 : b15 < 256) :
    V6.pton6 (V6.ntop6 [b0, b1, b2, b3, b4, b5, b6, b7, b8, b9, b10, b11, b12, b13, b14, b15]) = some [b0, b1, b2, b3, b4, b5, b6, b7, b8, b9, b10, b11, b12, b13, b14, b15] := by
  have hok := scanP_ok (decide (b0 * 256 + b1 = 0)) (decide (b2 * 256 + b3 = 0)) (decide (b4 * 256 + b5 = 0)) (decide (b6 * 256 + b7 = 0)) (decide (b8 * 256 + b9 = 0)) (decide (b10 * 256 + b11 = 0)) (decide (b12 * 256 + b13 = 0)) (decide (b14 * 256 + b15 = 0))
  have hsc := scanRuns_eq_scanP [b0 * 256 + b1, b2 * 256 + b3, b4 * 256 + b5, b6 * 256 + b7, b8 * 256 + b9, b10 * 256 + b11, b12 * 256 + b13, b14 * 256 + b15] 0 none none
  simp only [List.map_cons, List.map_nil] at hsc
  rw [← hsc] at hok
  cases hs : V6.scanRuns [b0 * 256 + b1, b2 * 256 + b3, b4 * 256 + b5, b6 * 256 + b7, b8 * 256 + b9, b10 * 256 + b11, b12 * 256 + b13, b14 * 256 + b15] 0 none none with
  | none => exact rt_none _ _ _ _ _ _ _ _ _ _ _ _ _ _ _ _ hb0 hb1 hb2 hb3 hb4 hb5 hb6 hb7 hb8 hb9 hb10 hb11 hb12 hb13 hb14 hb15 hs
  | some r =>
    obtain ⟨i, l⟩ := r
    rw [hs] at hok
    obtain ⟨h2, h8⟩ := RunOK_bounds _ _ _ _ _ _ _ _ i l hok
    have hi : i = 0 ∨ i = 1 ∨ i = 2 ∨ i = 3 ∨ i = 4 ∨ i = 5 ∨ i = 6 := by omega
    rcases hi with rfl | rfl | rfl | rfl | rfl | rfl | rfl
    · have hl : l = 2 ∨ l = 3 ∨ l = 4 ∨ l = 5 ∨ l = 6 ∨ l = 7 ∨ l = 8 := by omega
      rcases hl with rfl | rfl | rfl | rfl | rfl | rfl | rfl
      · exact rt_0_2 _ _ _ _ _ _ _ _ _ _ _ _ _ _ _ _ hb0 hb1 hb2 hb3 hb4 hb5 hb6 hb7 hb8 hb9 hb10 hb11 hb12 hb13 hb14 hb15 hs hok
      · exact rt_0_3 _ _ _ _ _ _ _ _ _ _ _ _ _ _ _ _ hb0 hb1 hb2 hb3 hb4 hb5 hb6 hb7 hb8 hb9 hb10 hb11 hb12 hb13 hb14 hb15 hs hok
      · exact rt_0_4 _ _ _ _ _ _ _ _ _ _ _ _ _ _ _ _ hb0 hb1 hb2 hb3 hb4 hb5 hb6 hb7 hb8 hb9 hb10 hb11 hb12 hb13 hb14 hb15 hs hok
      · exact rt_0_5 _ _ _ _ _ _ _ _ _ _ _ _ _ _ _ _ hb0 hb1 hb2 hb3 hb4 hb5 hb6 hb7 hb8 hb9 hb10 hb11 hb12 hb13 hb14 hb15 hs hok
      · exact rt_0_6 _ _ _ _ _ _ _ _ _ _ _ _ _ _ _ _ hb0 hb1 hb2 hb3 hb4 hb5 hb6 hb7 hb8 hb9 hb10 hb11 hb12 hb13 hb14 hb15 hs hok
      · exact rt_0_7 _ _ _ _ _ _ _ _ _ _ _ _ _ _ _ _ hb0 hb1 hb2 hb3 hb4 hb5 hb6 hb7 hb8 hb9 hb10 hb11 hb12 hb13 hb14 hb15 hs hok
      · exact rt_0_8 _ _ _ _ _ _ _ _ _ _ _ _ _ _ _ _ hb0 hb1 hb2 hb3 hb4 hb5 hb6 hb7 hb8 hb9 hb10 hb11 hb12 hb13 hb14 hb15 hs hok
    · have hl : l = 2 ∨ l = 3 ∨ l = 4 ∨ l = 5 ∨ l = 6 ∨ l = 7 := by omega
      rcases hl with rfl | rfl | rfl | rfl | rfl | rfl
      · exact rt_1_2 _ _ _ _ _ _ _ _ _ _ _ _ _ _ _ _ hb0 hb1 hb2 hb3 hb4 hb5 hb6 hb7 hb8 hb9 hb10 hb11 hb12 hb13 hb14 hb15 hs hok
      · exact rt_1_3 _ _ _ _ _ _ _ _ _ _ _ _ _ _ _ _ hb0 hb1 hb2 hb3 hb4 hb5 hb6 hb7 hb8 hb9 hb10 hb11 hb12 hb13 hb14 hb15 hs hok
      · exact rt_1_4 _ _ _ _ _ _ _ _ _ _ _ _ _ _ _ _ hb0 hb1 hb2 hb3 hb4 hb5 hb6 hb7 hb8 hb9 hb10 hb11 hb12 hb13 hb14 hb15 hs hok
      · exact rt_1_5 _ _ _ _ _ _ _ _ _ _ _ _ _ _ _ _ hb0 hb1 hb2 hb3 hb4 hb5 hb6 hb7 hb8 hb9 hb10 hb11 hb12 hb13 hb14 hb15 hs hok
      · exact rt_1_6 _ _ _ _ _ _ _ _ _ _ _ _ _ _ _ _ hb0 hb1 hb2 hb3 hb4 hb5 hb6 hb7 hb8 hb9 hb10 hb11 hb12 hb13 hb14 hb15 hs hok
      · exact rt_1_7 _ _ _ _ _ _ _ _ _ _ _ _ _ _ _ _ hb0 hb1 hb2 hb3 hb4 hb5 hb6 hb7 hb8 hb9 hb10 hb11 hb12 hb13 hb14 hb15 hs hok
    · have hl : l = 2 ∨ l = 3 ∨ l = 4 ∨ l = 5 ∨ l = 6 := by omega
      rcases hl with rfl | rfl | rfl | rfl | rfl
      · exact rt_2_2 _ _ _ _ _ _ _ _ _ _ _ _ _ _ _ _ hb0 hb1 hb2 hb3 hb4 hb5 hb6 hb7 hb8 hb9 hb10 hb11 hb12 hb13 hb14 hb15 hs hok
      · exact rt_2_3 _ _ _ _ _ _ _ _ _ _ _ _ _ _ _ _ hb0 hb1 hb2 hb3 hb4 hb5 hb6 hb7 hb8 hb9 hb10 hb11 hb12 hb13 hb14 hb15 hs hok
      · exact rt_2_4 _ _ _ _ _ _ _ _ _ _ _ _ _ _ _ _ hb0 hb1 hb2 hb3 hb4 hb5 hb6 hb7 hb8 hb9 hb10 hb11 hb12 hb13 hb14 hb15 hs hok
      · exact rt_2_5 _ _ _ _ _ _ _ _ _ _ _ _ _ _ _ _ hb0 hb1 hb2 hb3 hb4 hb5 hb6 hb7 hb8 hb9 hb10 hb11 hb12 hb13 hb14 hb15 hs hok
      · exact rt_2_6 _ _ _ _ _ _ _ _ _ _ _ _ _ _ _ _ hb0 hb1 hb2 hb3 hb4 hb5 hb6 hb7 hb8 hb9 hb10 hb11 hb12 hb13 hb14 hb15 hs hok
    · have hl : l = 2 ∨ l = 3 ∨ l = 4 ∨ l = 5 := by omega
      rcases hl with rfl | rfl | rfl | rfl
      · exact rt_3_2 _ _ _ _ _ _ _ _ _ _ _ _ _ _ _ _ hb0 hb1 hb2 hb3 hb4 hb5 hb6 hb7 hb8 hb9 hb10 hb11 hb12 hb13 hb14 hb15 hs hok
      · exact rt_3_3 _ _ _ _ _ _ _ _ _ _ _ _ _ _ _ _ hb0 hb1 hb2 hb3 hb4 hb5 hb6 hb7 hb8 hb9 hb10 hb11 hb12 hb13 hb14 hb15 hs hok
      · exact rt_3_4 _ _ _ _ _ _ _ _ _ _ _ _ _ _ _ _ hb0 hb1 hb2 hb3 hb4 hb5 hb6 hb7 hb8 hb9 hb10 hb11 hb12 hb13 hb14 hb15 hs hok
      · exact rt_3_5 _ _ _ _ _ _ _ _ _ _ _ _ _ _ _ _ hb0 hb1 hb2 hb3 hb4 hb5 hb6 hb7 hb8 hb9 hb10 hb11 hb12 hb13 hb14 hb15 hs hok
    · have hl : l = 2 ∨ l = 3 ∨ l = 4 := by omega
      rcases hl with rfl | rfl | rfl
      · exact rt_4_2 _ _ _ _ _ _ _ _ _ _ _ _ _ _ _ _ hb0 hb1 hb2 hb3 hb4 hb5 hb6 hb7 hb8 hb9 hb10 hb11 hb12 hb13 hb14 hb15 hs hok
      · exact rt_4_3 _ _ _ _ _ _ _ _ _ _ _ _ _ _ _ _ hb0 hb1 hb2 hb3 hb4 hb5 hb6 hb7 hb8 hb9 hb10 hb11 hb12 hb13 hb14 hb15 hs hok
      · exact rt_4_4 _ _ _ _ _ _ _ _ _ _ _ _ _ _ _ _ hb0 hb1 hb2 hb3 hb4 hb5 hb6 hb7 hb8 hb9 hb10 hb11 hb12 hb13 hb14 hb15 hs hok
    · have hl : l = 2 ∨ l = 3 := by omega
      rcases hl with rfl | rfl
      · exact rt_5_2 _ _ _ _ _ _ _ _ _ _ _ _ _ _ _ _ hb0 hb1 hb2 hb3 hb4 hb5 hb6 hb7 hb8 hb9 hb10 hb11 hb12 hb13 hb14 hb15 hs hok
      · exact rt_5_3 _ _ _ _ _ _ _ _ _ _ _ _ _ _ _ _ hb0 hb1 hb2 hb3 hb4 hb5 hb6 hb7 hb8 hb9 hb10 hb11 hb12 hb13 hb14 hb15 hs hok
    · have hl : l = 2 := by omega
      subst hl
      exact rt_6_2 _ _ _ _ _ _ _ _ _ _ _ _ _ _ _ _ hb0 hb1 hb2 hb3 hb4 hb5 hb6 hb7 hb8 hb9 hb10 hb11 hb12 hb13 hb14 hb15 hs hok

/-- parsing (reference model of glibc inet_pton6) the text that the reference model of glibc inet_ntop6 prints gives
    the address back -/
theorem pton6_ntop6 (a : List Nat) (h : WFB 16 a) : V6.pton6 (V6.ntop6 a) = some a := by
  obtain ⟨hl, hb⟩ := h
  match a, hl, hb with
  | [b0, b1, b2, b3, b4, b5, b6, b7, b8, b9, b10, b11, b12, b13, b14, b15], _, hb =>
    exact pton6_ntop6_bytes b0 b1 b2 b3 b4 b5 b6 b7 b8 b9 b10 b11 b12 b13 b14 b15
      (hb b0 (by simp)) (hb b1 (by simp)) (hb b2 (by simp)) (hb b3 (by simp)) (hb b4 (by simp)) (hb b5 (by simp)) (hb b6 (by simp)) (hb b7 (by simp)) (hb b8 (by simp)) (hb b9 (by simp)) (hb b10 (by simp)) (hb b11 (by simp)) (hb b12 (by simp)) (hb b13 (by simp)) (hb b14 (by simp)) (hb b15 (by simp))

end V6RT
end Tins.Addr
