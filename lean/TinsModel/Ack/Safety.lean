import TinsModel.Ack.Canon
import TinsModel.Ack.Refine
/-
  What holds for **all** histories, conforming or not (property C19, safety part).

  * `Sane`: the ACK number and every interval edge are 32-bit numbers and the interval list is canonical — preserved by
    `process_packet` for any 32-bit ACK and any edge vector.
  * `InWindow`: every stored point lies in the half-space *ahead* of the ACK number (`seq_compare(p, ack) > 0`).  This
    is **not** an invariant of the code for arbitrary traffic; it is preserved by every packet except two kinds:
    an ACK jumping by exactly 2^31 (`cleanup_sacked_intervals` then erases nothing) and a SACK block straddling the ACK
    number (the branch of `process_sack` that *assigns* `ack_number_` and erases nothing).  Witnesses in `Props/C19`.
  * `isSegmentAcked_pointwise`: what `is_segment_acked` computes, in point-set terms, for every state and query.
-/
namespace Tins.Ack

/-! ### `seq_compare` in terms of the 32-bit difference -/

theorem seqCompare_pos_iff (p a : Nat) (hp : p < 4294967296) (ha : a < 4294967296) :
    seqCompare p a > 0 ↔ (1 ≤ sub32 p a ∧ sub32 p a ≤ 2147483648) := by
  unfold seqCompare sub32
  split
  · rename_i h; subst h; simp
  · split <;> split <;> simp <;> omega

theorem seqCompare_neg_iff (a b : Nat) (ha : a < 4294967296) (hb : b < 4294967296) :
    seqCompare a b < 0 ↔ (1 ≤ sub32 b a ∧ sub32 b a < 2147483648) := by
  unfold seqCompare sub32
  split
  · rename_i h; subst h; simp
  · split <;> split <;> simp <;> omega

/-! ### 32-bit edges -/

/-- every interval ends below 2^32 -/
def Bnd (s : ISet) : Prop := ∀ j ∈ s, j.hi < 4294967296

theorem bnd_insertIvl (s : ISet) (lo hi : Nat) (hs : Bnd s) (hh : hi < 4294967296) : Bnd (insertIvl s lo hi) := by
  induction s generalizing lo hi with
  | nil => intro k hk; simp only [insertIvl, List.mem_singleton] at hk; subst hk; exact hh
  | cons j r ih =>
    have hj := hs j List.mem_cons_self
    have hr : Bnd r := fun k hk => hs k (List.mem_cons_of_mem _ hk)
    unfold insertIvl
    split
    · intro k hk
      simp only [List.mem_cons] at hk
      rcases hk with hk | hk
      · subst hk; exact hj
      · exact ih lo hi hr hh k hk
    · split
      · intro k hk
        simp only [List.mem_cons] at hk
        rcases hk with hk | hk | hk
        · subst hk; exact hh
        · subst hk; exact hj
        · exact hr k hk
      · exact ih _ _ hr (by omega)

theorem bnd_eraseIvl (s : ISet) (lo hi : Nat) (hs : Bnd s) : Bnd (eraseIvl s lo hi) := by
  unfold eraseIvl
  split
  · exact hs
  · intro k hk
    simp only [List.mem_flatMap] at hk
    obtain ⟨j, hj, hk⟩ := hk
    have := hs j hj
    unfold cutIvl at hk
    simp only [List.mem_append] at hk
    rcases hk with hk | hk
    · split at hk
      · simp only [List.mem_singleton] at hk; subst hk; simp only; omega
      · cases hk
    · split at hk
      · simp only [List.mem_singleton] at hk; subst hk; exact this
      · cases hk

theorem mem_lt_of_bnd {s : ISet} (hs : Bnd s) {p : Nat} (hp : ISet.mem s p = true) : p < 4294967296 := by
  simp only [ISet.mem, List.any_eq_true, decide_eq_true_eq] at hp
  obtain ⟨j, hj, h⟩ := hp
  have := hs j hj
  omega

/-- the state is a well-formed `(uint32_t, interval_set<uint32_t>)` -/
def Sane (t : Tracker) : Prop := t.ack < 4294967296 ∧ Canon t.ivs ∧ Bnd t.ivs

theorem Sane.good {t : Tracker} (h : Sane t) : Good t := ⟨h.1, h.2.1⟩

theorem bnd_foldl_erase (ivs : List Ivl) (s : ISet) (hs : Bnd s) :
    Bnd (ivs.foldl (fun s i => eraseIvl s i.lo i.hi) s) := by
  induction ivs generalizing s with
  | nil => exact hs
  | cons i r ih => exact ih _ (bnd_eraseIvl s i.lo i.hi hs)

theorem bnd_ackStep (t : Tracker) (a : Nat) (hs : Bnd t.ivs) : Bnd (ackStep t a).ivs := by
  unfold ackStep
  split
  · exact bnd_foldl_erase _ _ hs
  · exact hs

theorem bnd_foldl_sackInterval (ivs : List Ivl) (t : Tracker) (hs : Bnd t.ivs)
    (hi : ∀ i ∈ ivs, i.lo ≤ i.hi ∧ i.hi < 4294967296) : Bnd (ivs.foldl sackInterval t).ivs := by
  induction ivs generalizing t with
  | nil => exact hs
  | cons i r ih =>
    apply ih _ _ (fun j hj => hi j (List.mem_cons_of_mem _ hj))
    unfold sackInterval
    split
    · exact hs
    · exact bnd_insertIvl _ _ _ hs (hi i List.mem_cons_self).2

theorem bnd_sackBlock (t : Tracker) (l r : Nat) (hs : Bnd t.ivs) (hl : l < 4294967296) : Bnd (sackBlock t l r).ivs := by
  unfold sackBlock
  split
  · unfold sackRange
    split
    · exact bnd_foldl_sackInterval _ t hs (fun i hi => intervals_nonempty l _ hl (wrap32_lt _) i hi)
    · exact hs
  · exact hs

theorem bnd_processSack : ∀ (e : List Nat) (t : Tracker), Bnd t.ivs → (∀ x ∈ e, x < 4294967296) →
    Bnd (processSack t e).ivs
  | [], _, hs, _ => by simpa [processSack] using hs
  | [_], _, hs, _ => by simpa [processSack] using hs
  | l :: r :: rest, t, hs, he => by
    simp only [processSack]
    exact bnd_processSack rest _ (bnd_sackBlock t l r hs (he l List.mem_cons_self))
      (fun x hx => he x (List.mem_cons_of_mem _ (List.mem_cons_of_mem _ hx)))

/-- **every packet, any content**: one `process_packet` call with any 32-bit ACK and any 32-bit edge vector (any number of
    edges, odd or even, in any relation to the ACK and to each other) keeps the state well-formed -/
theorem sane_processPacket (t : Tracker) (a : Nat) (sack : SackOpt) (hs : Sane t) (ha : a < 4294967296)
    (he : ∀ e, sack = .edges e → ∀ x ∈ e, x < 4294967296) : Sane (processPacket t a sack).1 := by
  have hg := good_processPacket t a sack hs.good ha he
  refine ⟨hg.1, hg.2, ?_⟩
  unfold processPacket
  have h1 := bnd_ackStep t a hs.2.2
  simp only
  split
  · split
    · exact h1
    · exact h1
    · rename_i e
      exact bnd_processSack e _ h1 (he e rfl)
  · exact h1

/-! ### the half-space ahead of the ACK -/

/-- every stored point is ahead of the ACK number: `seq_compare(p, ack_number_) > 0` -/
def InWindow (t : Tracker) : Prop :=
  ∀ p, ISet.mem t.ivs p = true → 1 ≤ sub32 p t.ack ∧ sub32 p t.ack ≤ 2147483648

/-- the cumulative-ACK step keeps the points ahead of the ACK, unless the ACK jumps by exactly half the sequence space
    (then `AckedRange(old, new).has_next()` is false and nothing is erased) -/
theorem inWindow_ackStep (t : Tracker) (a : Nat) (hs : Sane t) (ha : a < 4294967296) (hw : InWindow t)
    (hj : sub32 a t.ack ≠ 2147483648) : InWindow (ackStep t a) := by
  unfold ackStep
  split
  · rename_i hc
    rw [seqCompare_pos_iff a t.ack ha hs.1] at hc
    intro p hp
    simp only [cleanupSackedIntervals] at hp ⊢
    rw [mem_foldl_erase] at hp
    obtain ⟨h1, h2⟩ := hp
    have hpw := hw p h1
    have hpl := mem_lt_of_bnd hs.2.2 h1
    have hack := hs.1
    rw [intervals_raw _ _ hs.1 ha] at h2
    unfold sub32 at *
    split at h2 <;> split at h2 <;> simp [ISet.mem] at h2 <;> omega
  · exact hw

/-- a block that `process_sack` skips or processes by insertions only (it does not straddle the ACK number) -/
def blockHigh (ack l r : Nat) : Bool :=
  !(decide (seqCompare l r < 0)) || !(decide (seqCompare (wrap32 (r + 4294967295)) ack > 0)) ||
  (Range.mk l (wrap32 (r + 4294967295))).intervals.all (fun i => decide (seqCompare i.lo ack > 0))

def edgesHigh (ack : Nat) : List Nat → Bool
  | l :: r :: rest => blockHigh ack l r && edgesHigh ack rest
  | _ => true

theorem sackBlock_high (t : Tracker) (l r : Nat) (hh : blockHigh t.ack l r = true) :
    sackBlock t l r = t ∨
    (seqCompare l r < 0 ∧ seqCompare (wrap32 (r + 4294967295)) t.ack > 0 ∧
      (∀ i ∈ (Range.mk l (wrap32 (r + 4294967295))).intervals, seqCompare i.lo t.ack > 0) ∧
      sackBlock t l r = { t with ivs := (Range.mk l (wrap32 (r + 4294967295))).intervals.foldl
                                          (fun s i => insertIvl s i.lo i.hi) t.ivs }) := by
  unfold sackBlock sackRange
  by_cases c1 : seqCompare l r < 0
  · by_cases c2 : seqCompare (wrap32 (r + 4294967295)) t.ack > 0
    · right
      simp only [blockHigh, c1, c2, decide_true, Bool.not_true, Bool.false_or, List.all_eq_true,
        decide_eq_true_eq] at hh
      refine ⟨c1, c2, hh, ?_⟩
      simp only [c1, c2, if_true]
      exact foldl_sackInterval_high _ t (fun i hi => by have := hh i hi; omega)
    · left; simp [c1, c2]
  · left; simp [c1]

theorem inWindow_sackBlock (t : Tracker) (l r : Nat) (hs : Sane t) (hl : l < 4294967296) (hw : InWindow t)
    (hh : blockHigh t.ack l r = true) : InWindow (sackBlock t l r) ∧ (sackBlock t l r).ack = t.ack := by
  rcases sackBlock_high t l r hh with h | ⟨c1, c2, c3, h⟩
  · rw [h]; exact ⟨hw, rfl⟩
  · rw [h]
    refine ⟨?_, rfl⟩
    intro p hp
    simp only at hp ⊢
    rw [mem_foldl_insert] at hp
    rcases hp with hp | hp
    · exact hw p hp
    · have hlast := wrap32_lt (r + 4294967295)
      generalize wrap32 (r + 4294967295) = last at *
      rw [seqCompare_pos_iff _ _ hlast hs.1] at c2
      have hack := hs.1
      rw [intervals_raw l last hl hlast] at hp c3
      by_cases h1 : l ≤ last
      · by_cases h2 : last - l < 2147483648
        · simp only [h1, h2, if_true] at hp c3
          have c := c3 ⟨l, last⟩ (by simp)
          simp only at c
          rw [seqCompare_pos_iff _ _ hl hs.1] at c
          simp [ISet.mem] at hp
          unfold sub32 at *; omega
        · simp [h1, h2, ISet.mem] at hp
      · by_cases h2 : l - last > 2147483648
        · simp only [h1, h2, if_true, if_false] at hp c3
          have ca := c3 ⟨l, 4294967295⟩ (by simp)
          have cb := c3 ⟨0, last⟩ (by simp)
          simp only at ca cb
          rw [seqCompare_pos_iff _ _ hl hs.1] at ca
          rw [seqCompare_pos_iff _ _ (by omega) hs.1] at cb
          simp [ISet.mem] at hp
          unfold sub32 at *; omega
        · simp [h1, h2, ISet.mem] at hp

theorem inWindow_processSack : ∀ (e : List Nat) (t : Tracker), Sane t → InWindow t → (∀ x ∈ e, x < 4294967296) →
    edgesHigh t.ack e = true → InWindow (processSack t e) ∧ (processSack t e).ack = t.ack
  | [], _, _, hw, _, _ => by simpa [processSack] using hw
  | [_], _, _, hw, _, _ => by simpa [processSack] using hw
  | l :: r :: rest, t, hs, hw, he, hh => by
    simp only [edgesHigh, Bool.and_eq_true] at hh
    have hl := he l List.mem_cons_self
    have ⟨w1, a1⟩ := inWindow_sackBlock t l r hs hl hw hh.1
    have s1 : Sane (sackBlock t l r) :=
      ⟨(good_sackBlock t l r hs.good hl).1, (good_sackBlock t l r hs.good hl).2, bnd_sackBlock t l r hs.2.2 hl⟩
    simp only [processSack]
    have := inWindow_processSack rest _ s1 w1
      (fun x hx => he x (List.mem_cons_of_mem _ (List.mem_cons_of_mem _ hx))) (by rw [a1]; exact hh.2)
    exact ⟨this.1, by rw [this.2, a1]⟩

/-- **window, one packet**: any packet — the ACK may stand still, "move backwards" (ignored) or advance by anything
    but exactly 2^31; the blocks may be empty, reversed, far away, below the ACK, overlapping — keeps every stored point
    ahead of the ACK number, provided no block straddles the ACK number (`edgesHigh`) -/
theorem inWindow_processPacket (t : Tracker) (a : Nat) (e : List Nat) (hs : Sane t) (hw : InWindow t)
    (ha : a < 4294967296) (he : ∀ x ∈ e, x < 4294967296) (hj : sub32 a t.ack ≠ 2147483648)
    (hh : edgesHigh (ackStep t a).ack e = true) : InWindow (processPacket t a (.edges e)).1 := by
  have w1 := inWindow_ackStep t a hs ha hw hj
  have s1 : Sane (ackStep t a) :=
    ⟨(good_ackStep t a hs.good ha).1, (good_ackStep t a hs.good ha).2, bnd_ackStep t a hs.2.2⟩
  unfold processPacket
  simp only
  split
  · exact (inWindow_processSack e _ s1 w1 he hh).1
  · exact w1

/-! ### what `is_segment_acked` computes, for every state -/

/-- For every tracker state and every query with `len > 0`: the answer is `true` iff each of the (at most two) pieces of
    `AckedRange(seq, seq + len - 1)` either ends before the ACK number or has all its points in the interval set.
    (`len = 0` answers `true`; a range longer than 2^31 has no pieces and answers `true`.) -/
theorem isSegmentAcked_pointwise (t : Tracker) (s n : Nat) (hs : s < 4294967296) (hn : n ≠ 0) :
    isSegmentAcked t s n = true ↔
      ∀ i ∈ (Range.mk s (wrap32 (s + n + 4294967295))).intervals,
        seqCompare i.hi t.ack < 0 ∨ ∀ p, i.lo ≤ p → p ≤ i.hi → ISet.mem t.ivs p = true := by
  unfold isSegmentAcked
  simp only [hn, if_false, List.all_eq_true, Bool.not_eq_true', Bool.and_eq_false_iff, decide_eq_false_iff_not,
    Bool.not_eq_false']
  constructor
  · intro h i hi
    have hne := intervals_nonempty s _ hs (wrap32_lt _) i hi
    rcases h i hi with h | h
    · left; omega
    · right; exact (containsIvl_iff t.ivs i.lo i.hi hne.1).1 h
  · intro h i hi
    have hne := intervals_nonempty s _ hs (wrap32_lt _) i hi
    rcases h i hi with h | h
    · left; omega
    · right; exact (containsIvl_iff t.ivs i.lo i.hi hne.1).2 h

end Tins.Ack
