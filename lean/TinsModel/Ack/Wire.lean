import TinsModel.Ack.Model
import TinsModel.Wire.Transport.Tcp
/-
  From wire bytes to the tracker: `AckTracker::process_packet(TCP(buffer, size))`.

  * `processWire` composes the byte-level model of the parsing constructor `TCP::TCP(const uint8_t*, uint32_t)` and of
    `search_option(SACK)` / `to<sack_type>()` (`Wire/Transport/Tcp.lean`: `Tcp.parse`, `Tcp.searchOption`,
    `Tcp.decodeSack`) with the tracker model (`Ack/Model.lean`: `processPacket`).
  * `refSegment` is a *reference encoder* written from RFC 793 §3.1 / RFC 2018 §3 (not from libtins' serializer): 20
    header bytes, the options as `kind [length data]`, END padding to a multiple of four, payload.  The correspondence
    run compares its bytes with the harness's own C++ reference encoder on every `segw` line.
-/
namespace Tins.Ack
open Tins.Wire.Transport

/-- what left `process_packet(TCP(bytes))` -/
inductive WireResult where
  | done                 -- returned normally
  | malformedOption      -- `to<sack_type>()` threw (after the cumulative ACK had been processed)
  | malformedPacket      -- the parsing constructor threw: `process_packet` was never reached
  | other (what : String)  -- anything else (a fault of the parser, another exception): shown never to occur
deriving Repr, DecidableEq

/-- `tcp->search_option(TCP::SACK)` followed by `sack_option->to<TCP::sack_type>()` on a parsed TCP object -/
def sackOf (tcp : Tcp) : Out SackOpt :=
  match tcp.searchOption Tcp.SACK with
  | none => .ok .absent
  | some o =>
    match Tcp.decodeSack o with
    | .ok e => .ok (.edges e)
    | .throw .malformedOption => .ok .malformed
    | .throw e => .throw e
    | .fault s => .fault s

/-- `AckTracker::process_packet(tcp)` for a parsed TCP object -/
def processTcp (t : Tracker) (tcp : Tcp) : Tracker × WireResult :=
  match sackOf tcp with
  | .ok s =>
    let r := processPacket t tcp.ackSeq s
    (r.1, if r.2 then .malformedOption else .done)
  -- `to<sack_type>()` is only evaluated when `use_sack_` is set, after the cumulative ACK has been processed
  | .throw e => if t.useSack then (ackStep t tcp.ackSeq, .other e.name) else (ackStep t tcp.ackSeq, .done)
  | .fault s => if t.useSack then (ackStep t tcp.ackSeq, .other s!"fault:{s}") else (ackStep t tcp.ackSeq, .done)

/-- `TCP tcp(buffer, size); tracker.process_packet(tcp);` -/
def processWire (t : Tracker) (b : Bytes) : Tracker × WireResult :=
  match Tcp.parse b with
  | .ok (tcp, _) => processTcp t tcp
  | .throw .malformedPacket => (t, .malformedPacket)
  | .throw e => (t, .other e.name)
  | .fault s => (t, .other s!"fault:{s}")

def wireStep (t : Tracker) (b : Bytes) : Tracker := (processWire t b).1

/-- the tracker after a sequence of segments (exceptions are caught by the caller, the tracker lives on) -/
def wireRun (t : Tracker) (segs : List Bytes) : Tracker := segs.foldl wireStep t

/-! ### reference encoder (RFC 793 / RFC 2018) -/

/-- one option: END and NOP are a single kind octet, everything else is `kind, length = 2 + |data|, data` -/
def refOpt (o : TcpOpt) : Bytes :=
  if o.code ≤ 1 then [UInt8.ofNat o.code]
  else UInt8.ofNat o.code :: UInt8.ofNat (o.data.length + 2) :: o.data

def refOpts (os : List TcpOpt) : Bytes := os.flatMap refOpt

/-- option bytes padded with END (zero) octets to the next multiple of four -/
def refOptArea (os : List TcpOpt) : Bytes :=
  let b := refOpts os
  b ++ List.replicate ((4 - b.length % 4) % 4) 0

/-- header fields of `h` (its `doff`, `check` and `opts` are ignored), data offset from the option area, checksum 0 -/
def refSegment (h : Tcp) (os : List TcpOpt) (payload : Bytes) : Bytes :=
  let area := refOptArea os
  OutCursor.beBytes 2 h.sport ++ OutCursor.beBytes 2 h.dport ++ OutCursor.beBytes 4 h.seq ++ OutCursor.beBytes 4 h.ackSeq ++
  [UInt8.ofNat ((20 + area.length) / 4 * 16 + h.res1), UInt8.ofNat h.flags8] ++
  OutCursor.beBytes 2 h.window ++ OutCursor.beBytes 2 0 ++ OutCursor.beBytes 2 h.urgPtr ++
  area ++ payload

/-- RFC 2018 §3: kind 5, length `8n + 2`, the edges as 32-bit big-endian numbers -/
def sackOption (edges : List Nat) : TcpOpt :=
  let d := encodeEdges edges
  ⟨Tcp.SACK, d.length, d⟩

end Tins.Ack
