import TinsModel.Basic.Seq32
/-
  Code-shaped model of `Tins::TCPIP::AckedRange` and `Tins::TCPIP::AckTracker`
  (src/tcp_ip/ack_tracker.cpp, include/tins/tcp_ip/ack_tracker.h).

  * All sequence numbers are `Nat` values `< 2^32`; every `uint32_t` operation of the C++ that can wrap
    is written with an explicit `wrap32` (`last_ + 1`, `sack[i] - 1`, `sequence_number + length - 1`).
  * `boost::icl::interval_set<uint32_t>` is a *parameter*: a list of closed intervals kept sorted, disjoint and
    non-touching (icl joins touching intervals of a discrete domain), with `insertIvl`, `eraseIvl`,
    `containsIvl` specified by point-set semantics (`ISet.mem`; lemmas in `Ack/Lemmas.lean`, canonical form in
    `Ack/Canon.lean`).  The assumption about icl is stated as an explicit contract in `Ack/Icl.lean` (`IclContract`) and
    shown to determine every observation; that the real icl meets it (including the printed canonical form) is
    validated by the correspondence run (`icl` op stream).
  * `AckedRange::next()` only ever builds `interval_type::closed(..)`, hence `interval_start` / `interval_end`
    (which special-case left-open / right-open bounds) reduce to `lower()` / `upper()`: `Ivl.lo` / `Ivl.hi`.
  * The two `while (range.has_next())` loops are run with fuel 3; `Lemmas.drain_fuel` shows two iterations
    always suffice (so the fuel never cuts a loop short).
-/
namespace Tins.Ack

/-- `discrete_interval<uint32_t>::closed(lo, hi)` -/
structure Ivl where
  lo : Nat
  hi : Nat
deriving Repr, DecidableEq

/-- `interval_set<uint32_t>`: canonical list of closed intervals in ascending order -/
abbrev ISet := List Ivl

/-- point-set semantics of an interval set -/
def ISet.mem (s : ISet) (p : Nat) : Bool := s.any (fun j => decide (j.lo ≤ p ∧ p ≤ j.hi))

/-- `interval_set::insert(closed(lo,hi))`: absorbs every interval that overlaps or touches `[lo,hi]`. -/
def insertIvl : ISet → Nat → Nat → ISet
  | [], lo, hi => [⟨lo, hi⟩]
  | j :: r, lo, hi =>
    if j.hi + 1 < lo then j :: insertIvl r lo hi
    else if hi + 1 < j.lo then ⟨lo, hi⟩ :: j :: r
    else insertIvl r (min lo j.lo) (max hi j.hi)

/-- what is left of `j` after removing `[lo,hi]` (zero, one or two pieces) -/
def cutIvl (lo hi : Nat) (j : Ivl) : List Ivl :=
  (if j.lo < lo then [⟨j.lo, min j.hi (lo - 1)⟩] else []) ++
  (if hi < j.hi then [⟨max j.lo (hi + 1), j.hi⟩] else [])

/-- `interval_set::erase(closed(lo,hi))` -/
def eraseIvl (s : ISet) (lo hi : Nat) : ISet :=
  if hi < lo then s else s.flatMap (cutIvl lo hi)

/-- `icl::contains(set, closed(lo,hi))`: nothing of `[lo,hi]` is left once every interval of the set is removed. -/
def containsIvl (s : ISet) (lo hi : Nat) : Bool :=
  (s.foldl (fun rem j => eraseIvl rem j.lo j.hi) [⟨lo, hi⟩]).isEmpty

/-- `interval_set::insert(right_open(lo, hi))`: over a discrete domain the closed interval `[lo, hi - 1]`; an empty
    interval (`hi ≤ lo`) inserts nothing.  (Not used by the tracker — `AckedRange::next` only builds closed intervals —
    but `interval_start` / `interval_end` are written for such bounds; exercised by the `icl` correspondence stream.) -/
def insertRO (s : ISet) (lo hi : Nat) : ISet := if lo < hi then insertIvl s lo (hi - 1) else s

/-- `icl::cardinality(set)`: the number of points -/
def ISet.card (s : ISet) : Nat := s.foldl (fun n j => n + (j.hi + 1 - j.lo)) 0

/-- `set.iterative_size()` / `icl::interval_count(set)`: the number of maximal intervals -/
def ISet.count (s : ISet) : Nat := s.length

/-! ### AckedRange -/

structure Range where
  first : Nat
  last : Nat
deriving Repr, DecidableEq

/-- `AckedRange::has_next` -/
def Range.hasNext (r : Range) : Bool := decide (seqCompare r.first r.last ≤ 0)

/-- `AckedRange::next`: the interval returned and the range afterwards -/
def Range.next (r : Range) : Ivl × Range :=
  if r.first ≤ r.last then
    -- regular case
    (⟨r.first, r.last⟩, { r with first := wrap32 (r.last + 1) })
  else
    -- range wraps around
    (⟨r.first, 4294967295⟩, { r with first := 0 })

/-- `while (range.has_next()) { ... range.next() ... }`: the intervals produced, in order -/
def Range.drain : Nat → Range → List Ivl
  | 0, _ => []
  | n + 1, r => if r.hasNext then (r.next.1 :: Range.drain n r.next.2) else []

def Range.intervals (r : Range) : List Ivl := Range.drain 3 r

/-! ### AckTracker -/

structure Tracker where
  ack : Nat          -- ack_number_
  ivs : ISet         -- acked_intervals_
  useSack : Bool     -- use_sack_
deriving Repr, DecidableEq

/-- `AckTracker()` -/
def Tracker.default : Tracker := { ack := 0, ivs := [], useSack := false }

/-- `AckTracker(initial_ack, use_sack)` -/
def Tracker.init (ack : Nat) (useSack : Bool) : Tracker := { ack := ack, ivs := [], useSack := useSack }

/-- `AckTracker::cleanup_sacked_intervals(old_ack, new_ack)`: erases the *closed* range `[old,new]` -/
def cleanupSackedIntervals (t : Tracker) (oldAck newAck : Nat) : Tracker :=
  { t with ivs := (Range.mk oldAck newAck).intervals.foldl (fun s i => eraseIvl s i.lo i.hi) t.ivs }

/-- body of the inner `while` of `process_sack` for one interval -/
def sackInterval (t : Tracker) (next : Ivl) : Tracker :=
  if seqCompare next.lo t.ack ≤ 0 then
    -- interval starts before or at the ACK number: the ACK number becomes the *end* of the interval
    { t with ack := next.hi }
  else
    { t with ivs := insertIvl t.ivs next.lo next.hi }

/-- `if (seq_compare(range.last(), ack_number_) > 0) { while (range.has_next()) ... }` -/
def sackRange (t : Tracker) (range : Range) : Tracker :=
  if seqCompare range.last t.ack > 0 then
    range.intervals.foldl sackInterval t
  else t

/-- body of the `for` of `process_sack` for one pair of edges; `sack[i] - 1` wraps -/
def sackBlock (t : Tracker) (left right : Nat) : Tracker :=
  if seqCompare left right < 0 then
    sackRange t ⟨left, wrap32 (right + 4294967295)⟩
  else t

/-- `AckTracker::process_sack`: `for (i = 1; i < sack.size(); i += 2)` over pairs; a trailing odd edge is ignored -/
def processSack (t : Tracker) : List Nat → Tracker
  | l :: r :: rest => processSack (sackBlock t l r) rest
  | _ => t

/-- what `tcp->search_option(SACK)` + `to<sack_type>()` yield -/
inductive SackOpt where
  | absent                     -- no SACK option
  | edges (e : List Nat)       -- decoded edges
  | malformed                  -- data size not a multiple of 4: `malformed_option` is thrown
deriving Repr, DecidableEq

/-- `vector<uint32_t>` converter of `PDUOption::to` (src/pdu_option.cpp `convert_vector<uint32_t>`, big endian) -/
def decodeEdges : List UInt8 → List Nat
  | a :: b :: c :: d :: r => (a.toNat * 16777216 + b.toNat * 65536 + c.toNat * 256 + d.toNat) :: decodeEdges r
  | _ => []

/-- `TCP::sack(edges)`: every edge written big-endian (`stream.write_be`) -/
def encodeEdges : List Nat → List UInt8
  | [] => []
  | e :: r => UInt8.ofNat (e / 16777216) :: UInt8.ofNat (e / 65536) :: UInt8.ofNat (e / 256) :: UInt8.ofNat e
      :: encodeEdges r

def decodeSack (data : List UInt8) : SackOpt :=
  if data.length % 4 != 0 then .malformed else .edges (decodeEdges data)

/-- first `if` of `process_packet`: the cumulative ACK advances and the intervals at or below it are erased -/
def ackStep (t : Tracker) (ackSeq : Nat) : Tracker :=
  if seqCompare ackSeq t.ack > 0 then
    { cleanupSackedIntervals t t.ack ackSeq with ack := ackSeq }
  else t

/-- `AckTracker::process_packet` for a packet that has a TCP layer; the flag is `true` when
    `malformed_option` leaves the function (after the cumulative ACK has already been processed). -/
def processPacket (t : Tracker) (ackSeq : Nat) (sack : SackOpt) : Tracker × Bool :=
  let t1 := ackStep t ackSeq
  if t1.useSack then
    match sack with
    | .absent => (t1, false)
    | .malformed => (t1, true)
    | .edges e => (processSack t1 e, false)
  else (t1, false)

/-- `AckTracker::is_segment_acked`; the early `return false` of the loop is `List.all` -/
def isSegmentAcked (t : Tracker) (seq len : Nat) : Bool :=
  if len = 0 then true
  else
    let range : Range := ⟨seq, wrap32 (seq + len + 4294967295)⟩
    range.intervals.all (fun i =>
      !(decide (seqCompare i.hi t.ack ≥ 0) && !containsIvl t.ivs i.lo i.hi))

end Tins.Ack
