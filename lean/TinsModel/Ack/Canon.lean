import TinsModel.Ack.Lemmas
/-
  Canonical form of the interval-set parameter: ascending, non-empty intervals separated by at least one missing
  number (icl joins touching intervals).  `insertIvl` / `eraseIvl` preserve it, hence every tracker state reachable by
  any traffic is canonical; and a canonical list is determined by its point set.
-/
namespace Tins.Ack

/-- the first interval (if any) starts strictly above `m` -/
def headGt (m : Nat) : ISet → Prop
  | [] => True
  | b :: _ => m < b.lo

/-- ascending, non-empty, non-touching -/
def Canon : ISet → Prop
  | [] => True
  | a :: s => a.lo ≤ a.hi ∧ headGt (a.hi + 1) s ∧ Canon s

theorem headGt_mono {m m' : Nat} {s : ISet} (h : headGt m' s) (hm : m ≤ m') : headGt m s := by
  cases s with
  | nil => trivial
  | cons b r => simp only [headGt] at h ⊢; omega

theorem canon_insertIvl (s : ISet) (lo hi : Nat) (hc : Canon s) (hl : lo ≤ hi) :
    Canon (insertIvl s lo hi) ∧ ∀ m, headGt m s → m < lo → headGt m (insertIvl s lo hi) := by
  induction s generalizing lo hi with
  | nil => exact ⟨⟨hl, trivial, trivial⟩, fun m _ h => h⟩
  | cons j r ih =>
    obtain ⟨hj, hg, hr⟩ := hc
    unfold insertIvl
    split
    · rename_i h1
      have ⟨c, g⟩ := ih lo hi hr hl
      exact ⟨⟨hj, g _ hg h1, c⟩, fun m hm _ => hm⟩
    · split
      · rename_i h1 h2
        exact ⟨⟨hl, h2, hj, hg, hr⟩, fun m _ h => h⟩
      · rename_i h1 h2
        have ⟨c, g⟩ := ih (min lo j.lo) (max hi j.hi) hr (by omega)
        refine ⟨c, fun m hm h => g m (headGt_mono hg ?_) ?_⟩
        · simp only [headGt] at hm; omega
        · simp only [headGt] at hm; omega

theorem canon_flatMap_cut (s : ISet) (lo hi : Nat) (hc : Canon s) (hl : lo ≤ hi) :
    Canon (s.flatMap (cutIvl lo hi)) ∧ ∀ m, headGt m s → headGt m (s.flatMap (cutIvl lo hi)) := by
  induction s with
  | nil => exact ⟨trivial, fun _ _ => trivial⟩
  | cons j r ih =>
    obtain ⟨hj, hg, hr⟩ := hc
    have ⟨c, g⟩ := ih hr
    have gt := g _ hg
    simp only [List.flatMap_cons, cutIvl]
    split <;> split
    · simp only [List.cons_append, List.nil_append]
      refine ⟨⟨by simp only; omega, by simp only [headGt]; omega, by simp only; omega,
        headGt_mono gt (by simp only; omega), c⟩, fun m hm => ?_⟩
      simp only [headGt] at hm ⊢; exact hm
    · simp only [List.cons_append, List.nil_append, List.append_nil]
      refine ⟨⟨by simp only; omega, headGt_mono gt (by simp only; omega), c⟩, fun m hm => ?_⟩
      simp only [headGt] at hm ⊢; exact hm
    · simp only [List.cons_append, List.nil_append]
      refine ⟨⟨by simp only; omega, headGt_mono gt (by simp only; omega), c⟩, fun m hm => ?_⟩
      simp only [headGt] at hm ⊢; omega
    · simp only [List.nil_append]
      refine ⟨c, fun m hm => headGt_mono gt ?_⟩
      simp only [headGt] at hm; omega

theorem canon_eraseIvl (s : ISet) (lo hi : Nat) (hc : Canon s) : Canon (eraseIvl s lo hi) := by
  unfold eraseIvl
  split
  · exact hc
  · exact (canon_flatMap_cut s lo hi hc (by omega)).1

/-! ### a canonical list is determined by its points -/

theorem mem_gt_of_headGt {m : Nat} {s : ISet} (hc : Canon s) (hg : headGt m s) {p : Nat}
    (hp : ISet.mem s p = true) : m < p := by
  induction s generalizing m with
  | nil => simp [ISet.mem] at hp
  | cons a r ih =>
    obtain ⟨ha, hg', hr⟩ := hc
    simp only [headGt] at hg
    rw [mem_cons, Bool.or_eq_true, decide_eq_true_eq] at hp
    rcases hp with hp | hp
    · omega
    · have := ih hr hg' hp; omega

theorem canon_ext (s s' : ISet) (hc : Canon s) (hc' : Canon s') (h : ∀ p, ISet.mem s p = ISet.mem s' p) :
    s = s' := by
  induction s generalizing s' with
  | nil =>
    cases s' with
    | nil => rfl
    | cons b r' =>
      have := h b.lo
      have hb := hc'.1
      simp [ISet.mem] at this
      omega
  | cons a r ih =>
    cases s' with
    | nil =>
      have := h a.lo
      have ha := hc.1
      simp [ISet.mem] at this
      omega
    | cons b r' =>
      obtain ⟨ha, hg, hr⟩ := hc
      obtain ⟨hb, hg', hr'⟩ := hc'
      -- points of the tails lie strictly above the heads
      have tail : ∀ p, ISet.mem r p = true → a.hi + 1 < p := fun p hp => mem_gt_of_headGt hr hg hp
      have tail' : ∀ p, ISet.mem r' p = true → b.hi + 1 < p := fun p hp => mem_gt_of_headGt hr' hg' hp
      have key : ∀ p, ((a.lo ≤ p ∧ p ≤ a.hi) ∨ ISet.mem r p = true) ↔ ((b.lo ≤ p ∧ p ≤ b.hi) ∨ ISet.mem r' p = true) := by
        intro p
        have := h p
        rw [mem_cons, mem_cons] at this
        rw [← decide_eq_true_iff (p := a.lo ≤ p ∧ p ≤ a.hi), ← decide_eq_true_iff (p := b.lo ≤ p ∧ p ≤ b.hi),
          ← Bool.or_eq_true, ← Bool.or_eq_true, this]
      have hlo : a.lo = b.lo := by
        have h1 := (key a.lo).1 (Or.inl ⟨Nat.le_refl _, ha⟩)
        have h2 := (key b.lo).2 (Or.inl ⟨Nat.le_refl _, hb⟩)
        rcases h1 with h1 | h1 <;> rcases h2 with h2 | h2
        · omega
        · have := tail _ h2; omega
        · have := tail' _ h1; omega
        · have := tail _ h2; have := tail' _ h1; omega
      have hhi : a.hi = b.hi := by
        apply Nat.le_antisymm
        · apply Nat.le_of_not_lt; intro hlt
          rcases (key (b.hi + 1)).1 (Or.inl ⟨by omega, by omega⟩) with h1 | h1
          · omega
          · have := tail' _ h1; omega
        · apply Nat.le_of_not_lt; intro hlt
          rcases (key (a.hi + 1)).2 (Or.inl ⟨by omega, by omega⟩) with h1 | h1
          · omega
          · have := tail _ h1; omega
      have hab : a = b := by cases a; cases b; simp only at hlo hhi; subst hlo; subst hhi; rfl
      subst hab
      congr 1
      apply ih r' hr hr'
      intro p
      cases h1 : ISet.mem r p <;> cases h2 : ISet.mem r' p <;> try rfl
      · have := tail' p h2
        rcases (key p).2 (Or.inr h2) with h3 | h3
        · omega
        · rw [h1] at h3; cases h3
      · have := tail p h1
        rcases (key p).1 (Or.inr h1) with h3 | h3
        · omega
        · rw [h2] at h3; cases h3

/-! ### every reachable tracker state is canonical -/

theorem intervals_nonempty (x y : Nat) (hx : x < 4294967296) (hy : y < 4294967296) (i : Ivl)
    (hi : i ∈ (Range.mk x y).intervals) : i.lo ≤ i.hi ∧ i.hi < 4294967296 := by
  rw [intervals_raw x y hx hy] at hi
  split at hi <;> split at hi
  · simp only [List.mem_singleton] at hi; subst hi; simp only; omega
  · simp at hi
  · simp only [List.mem_cons, List.mem_nil_iff, or_false] at hi
    rcases hi with hi | hi <;> subst hi <;> simp only <;> omega
  · simp at hi

/-- 32-bit ACK number and canonical interval list -/
def Good (t : Tracker) : Prop := t.ack < 4294967296 ∧ Canon t.ivs

theorem canon_foldl_erase (ivs : List Ivl) (s : ISet) (hc : Canon s) :
    Canon (ivs.foldl (fun s i => eraseIvl s i.lo i.hi) s) := by
  induction ivs generalizing s with
  | nil => exact hc
  | cons i r ih => exact ih _ (canon_eraseIvl s i.lo i.hi hc)

theorem good_ackStep (t : Tracker) (a : Nat) (hg : Good t) (ha : a < 4294967296) : Good (ackStep t a) := by
  unfold ackStep
  split
  · exact ⟨ha, canon_foldl_erase _ _ hg.2⟩
  · exact hg

theorem good_sackInterval (t : Tracker) (i : Ivl) (hg : Good t) (hi : i.lo ≤ i.hi ∧ i.hi < 4294967296) :
    Good (sackInterval t i) := by
  unfold sackInterval
  split
  · exact ⟨hi.2, hg.2⟩
  · exact ⟨hg.1, (canon_insertIvl t.ivs i.lo i.hi hg.2 hi.1).1⟩

theorem good_foldl_sackInterval (ivs : List Ivl) (t : Tracker) (hg : Good t)
    (hi : ∀ i ∈ ivs, i.lo ≤ i.hi ∧ i.hi < 4294967296) : Good (ivs.foldl sackInterval t) := by
  induction ivs generalizing t with
  | nil => exact hg
  | cons i r ih =>
    exact ih _ (good_sackInterval t i hg (hi i List.mem_cons_self)) (fun j hj => hi j (List.mem_cons_of_mem _ hj))

theorem good_sackBlock (t : Tracker) (l r : Nat) (hg : Good t) (hl : l < 4294967296) : Good (sackBlock t l r) := by
  unfold sackBlock
  split
  · unfold sackRange
    split
    · exact good_foldl_sackInterval _ t hg (fun i hi => intervals_nonempty l _ hl (wrap32_lt _) i hi)
    · exact hg
  · exact hg

theorem good_processSack (e : List Nat) (t : Tracker) (hg : Good t) (he : ∀ x ∈ e, x < 4294967296) :
    Good (processSack t e) := by
  fun_induction processSack t e with
  | case1 t l r rest ih =>
    exact ih (good_sackBlock t l r hg (he l List.mem_cons_self))
      (fun x hx => he x (List.mem_cons_of_mem _ (List.mem_cons_of_mem _ hx)))
  | case2 t e h => exact hg

/-- Whatever the traffic (conforming or not), `process_packet` keeps the interval set canonical: the intervals
    reported through `icl::first/last` are the maximal runs of its point set. -/
theorem good_processPacket (t : Tracker) (a : Nat) (sack : SackOpt) (hg : Good t) (ha : a < 4294967296)
    (he : ∀ e, sack = .edges e → ∀ x ∈ e, x < 4294967296) : Good (processPacket t a sack).1 := by
  unfold processPacket
  have h1 := good_ackStep t a hg ha
  simp only
  split
  · split
    · exact h1
    · exact h1
    · rename_i e
      exact good_processSack e _ h1 (he e rfl)
  · exact h1

end Tins.Ack
