import TinsModel.Basic.Seq32
/-
  Specification of property C19, written from the property text and RFC 793 / RFC 2018, without reference to
  libtins: *absolute* (unwrapped) stream positions, a receiver that acknowledges cumulatively up to `ack`
  (the first position it has not received) and selectively the blocks `[l, r)` of positions it holds above it.

  The observer (the tracker) sees a history of such packets — any subsequence of what the receiver sent.
-/
namespace Tins.Ack.Spec

/-- half-open block of absolute positions `[l, r)` -/
abbrev Blk := Nat × Nat

/-- one acknowledgement packet: cumulative ACK and SACK blocks, absolute positions -/
structure Pkt where
  ack : Nat
  blocks : List Blk
deriving Repr

/-- position `p` lies in one of the blocks -/
def sacked (seen : List Blk) (p : Nat) : Bool := seen.any (fun b => decide (b.1 ≤ p ∧ p < b.2))

/-- half of the sequence space: how far apart two positions may be for serial-number arithmetic to order them -/
def half : Nat := 2147483648

/-- One packet is acceptable after the observer has seen cumulative ACK `A` and the blocks `seen`:
    * the cumulative ACK does not move backwards, and advances by less than half the sequence space;
    * every block is non-empty, lies strictly above the packet's ACK and ends within half the sequence space of it;
    * the receiver is consistent: the new ACK is a position it has *not* received, hence it lies in no block it
      reported earlier (a receiver holding `[l,r)` whose cumulative ACK reaches `l` acknowledges up to `r` at least). -/
def pktOK (A : Nat) (seen : List Blk) (k : Pkt) : Bool :=
  decide (A ≤ k.ack) && decide (k.ack < A + half) &&
  k.blocks.all (fun b => decide (k.ack < b.1) && decide (b.1 < b.2) && decide (b.2 ≤ k.ack + half)) &&
  !sacked seen k.ack

/-- a conforming history, from the state in which the observer has seen `A` and `seen` -/
def conforming : Nat → List Blk → List Pkt → Bool
  | _, _, [] => true
  | A, seen, k :: rest => pktOK A seen k && conforming k.ack (seen ++ k.blocks) rest

/-- cumulative ACK after a history (the last one; `A` if there was none) -/
def cumAck : Nat → List Pkt → Nat
  | A, [] => A
  | _, k :: rest => cumAck k.ack rest

/-- all blocks seen after a history -/
def allBlocks : List Blk → List Pkt → List Blk
  | seen, [] => seen
  | seen, k :: rest => allBlocks (seen ++ k.blocks) rest

/-- a byte position is acknowledged: below the cumulative ACK or inside a SACKed block -/
def ackedByte (A : Nat) (seen : List Blk) (p : Nat) : Prop := p < A ∨ sacked seen p = true

/-- the property's definition of "segment `[s, s+n)` is acknowledged" -/
def SegAcked (A : Nat) (seen : List Blk) (s n : Nat) : Prop := ∀ p, s ≤ p → p < s + n → ackedByte A seen p

/-! ### executable form used by the run-time oracle (proved equal to the definitions above in `Ack/SpecLemmas`) -/

/-- what is left of the half-open pieces `ps` after removing `[l, r)` -/
def cutPieces (ps : List Blk) (l r : Nat) : List Blk :=
  ps.flatMap (fun q =>
    (if q.1 < min q.2 l then [(q.1, min q.2 l)] else []) ++
    (if max q.1 r < q.2 then [(max q.1 r, q.2)] else []))

/-- the part of `ps` not covered by the blocks -/
def uncovered (ps : List Blk) : List Blk → List Blk
  | [] => ps
  | b :: bs => uncovered (cutPieces ps b.1 b.2) bs

def allEmpty (ps : List Blk) : Bool := ps.all (fun q => decide (q.2 ≤ q.1))

/-- `[s, s+n)` minus `[0, A)` minus every seen block is empty -/
def segAckedFast (A : Nat) (seen : List Blk) (s n : Nat) : Bool :=
  allEmpty (uncovered [(s, s + n)] ((0, A) :: seen))

/-- the blocks restricted to positions strictly above `A` -/
def aboveAck (A : Nat) (seen : List Blk) : List Blk :=
  seen.filterMap (fun b => if max b.1 (A + 1) < b.2 then some (max b.1 (A + 1), b.2) else none)

/-! ### the run-time oracle: what the observer's state must be after a conforming history -/

/-- the position `≥ A` congruent to the 32-bit number `x`, less than 2^32 above `A` -/
def unwrapFwd (A x : Nat) : Nat := A + sub32 x (wrap32 A)

/-- the position congruent to `x` in the window `(A - 2^31, A + 2^31)`; `none` if it would be negative or is the
    antipode of `A` -/
def unwrapNear (A x : Nat) : Option Nat :=
  let d := sub32 x (wrap32 A)
  if d < half then some (A + d)
  else if d = half then none
  else if A + d < 4294967296 then none else some (A + d - 4294967296)

/-- an interval `[lo,hi]` of 32-bit numbers reported by the observer, as a block of absolute positions strictly above
    `A` and inside the window; `none` when it is not of that kind -/
def ivlAbs (A : Nat) (iv : Nat × Nat) : Option Blk :=
  let l := unwrapFwd A iv.1
  if iv.1 ≤ iv.2 ∧ iv.2 < 4294967296 ∧ A < l ∧ l + (iv.2 - iv.1) < A + half then some (l, l + (iv.2 - iv.1) + 1)
  else none

/-- sorted, non-empty, and separated by at least one missing number (maximal intervals) -/
def canonical : List (Nat × Nat) → Bool
  | [] => true
  | [a] => decide (a.1 ≤ a.2)
  | a :: b :: r => decide (a.1 ≤ a.2) && decide (a.2 + 1 < b.1) && canonical (b :: r)

/-- The observer reports cumulative ACK `ack` and intervals `ivs` (32-bit numbers) after having seen `A`, `seen`.
    Returns the name of the violated clause, or `""`. -/
def stateVerdict (A : Nat) (seen : List Blk) (ack : Nat) (ivs : List (Nat × Nat)) : String :=
  if ack != wrap32 A then "ack-number"
  else if !canonical ivs then "canonical-intervals"
  else match ivs.mapM (ivlAbs A) with
    | none => "interval-outside-window"
    | some abs =>
      -- every reported number is a SACKed position above the ACK ...
      if !(abs.all (fun q => allEmpty (uncovered [q] seen))) then "interval-not-sacked"
      -- ... and every SACKed position above the ACK is reported
      else if !((aboveAck A seen).all (fun b => allEmpty (uncovered [b] abs))) then "sacked-range-missing"
      else ""

/-- a query `(s, n)` in absolute positions is inside the domain of the property: the whole segment lies in the
    window `(A - 2^31, A + 2^31)` -/
def queryInDomain (A s n : Nat) : Bool :=
  decide (A < s + half) && decide (s + n ≤ A + half) && decide (n ≤ half)

end Tins.Ack.Spec
