import TinsModel.Ack.Lemmas
import TinsModel.Ack.Canon
import TinsModel.Ack.Spec
/-
  Refinement: the tracker model, fed the 32-bit images of a conforming history of absolute positions, represents
  exactly the observer's knowledge `(A, seen)` of the specification.
-/
namespace Tins.Ack
open Tins.Ack.Spec

/-- the points of `AckedRange(wrap a, wrap b)` are the images of the absolute positions `a..b` -/
theorem mem_intervals_abs (a b x : Nat) (hab : a ≤ b) (hw : b < a + 2147483648) :
    ISet.mem (Range.mk (wrap32 a) (wrap32 b)).intervals x = true ↔ ∃ p, a ≤ p ∧ p ≤ b ∧ wrap32 p = x := by
  rw [intervals_abs a b hab hw]
  split
  · simp only [ISet.mem, List.any_cons, List.any_nil, Bool.or_false, decide_eq_true_eq]
    constructor
    · intro h; refine ⟨a / 4294967296 * 4294967296 + x, ?_⟩; unfold wrap32 at *; omega
    · rintro ⟨p, h1, h2, h3⟩; unfold wrap32 at *; omega
  · simp only [ISet.mem, List.any_cons, List.any_nil, Bool.or_false, Bool.or_eq_true, decide_eq_true_eq]
    constructor
    · rintro (h | h)
      · refine ⟨a / 4294967296 * 4294967296 + x, ?_⟩; unfold wrap32 at *; omega
      · refine ⟨b / 4294967296 * 4294967296 + x, ?_⟩; unfold wrap32 at *; omega
    · rintro ⟨p, h1, h2, h3⟩; unfold wrap32 at *; omega

/-- every interval yielded is the image of a sub-range `p..q` of the range, without wrap inside it -/
theorem interval_of_abs (a b : Nat) (hab : a ≤ b) (hw : b < a + 2147483648) (i : Ivl)
    (hi : i ∈ (Range.mk (wrap32 a) (wrap32 b)).intervals) :
    ∃ p q, a ≤ p ∧ p ≤ q ∧ q ≤ b ∧ i.lo = wrap32 p ∧ i.hi = wrap32 q ∧ q - p = i.hi - i.lo ∧ i.lo ≤ i.hi := by
  rw [intervals_abs a b hab hw] at hi
  split at hi
  · simp only [List.mem_singleton] at hi; subst hi
    refine ⟨a, b, ?_⟩
    unfold wrap32; simp only
    (repeat' apply And.intro) <;> first | omega | exact True.intro
  · simp only [List.mem_cons, List.mem_nil_iff, or_false] at hi
    rcases hi with hi | hi <;> subst hi
    · refine ⟨a, a / 4294967296 * 4294967296 + 4294967295, ?_⟩; unfold wrap32; simp only
      (repeat' apply And.intro) <;> first | omega | exact True.intro
    · refine ⟨b / 4294967296 * 4294967296, b, ?_⟩; unfold wrap32; simp only
      (repeat' apply And.intro) <;> first | omega | exact True.intro

/-! ### the representation invariant -/

/-- tracker state `t` represents the observer's knowledge `(A, seen)`:
    its ACK number is the image of `A`; its interval set holds exactly the images of the SACKed positions above `A`;
    these lie within half the sequence space of `A`; and `A` itself has not been reported received. -/
structure Rep (A : Nat) (seen : List Blk) (t : Tracker) : Prop where
  ack : t.ack = wrap32 A
  pts : ∀ x, ISet.mem t.ivs x = true ↔ ∃ p, wrap32 p = x ∧ A < p ∧ sacked seen p = true
  win : ∀ p, sacked seen p = true → A < p → p < A + half
  hole : sacked seen A = false

theorem sacked_append (s1 s2 : List Blk) (p : Nat) : sacked (s1 ++ s2) p = (sacked s1 p || sacked s2 p) := by
  simp [sacked]

theorem sacked_single (l r p : Nat) : sacked [(l, r)] p = decide (l ≤ p ∧ p < r) := by
  simp [sacked]

theorem rep_init (a0 : Nat) (b : Bool) : Rep a0 [] (Tracker.init (wrap32 a0) b) := by
  refine ⟨rfl, ?_, ?_, rfl⟩
  · intro x; simp [Tracker.init, ISet.mem, sacked]
  · intro p h; simp [sacked] at h

/-! ### cumulative ACK -/

theorem rep_ackStep {A : Nat} {seen : List Blk} {t : Tracker} (hr : Rep A seen t) (A' : Nat)
    (h1 : A ≤ A') (h2 : A' < A + half) (h3 : sacked seen A' = false) :
    Rep A' seen (ackStep t (wrap32 A')) := by
  unfold half at h2
  unfold ackStep
  rw [hr.ack, seqCompare_abs A' A (by omega) (by omega)]
  by_cases he : A' = A
  · subst he; simpa using hr
  · have hlt : A < A' := by omega
    have hc : ((if A' = A then (0 : Int) else if A' < A then -1 else 1) > 0) := by
      rw [if_neg he, if_neg (by omega)]; decide
    rw [if_pos hc]
    refine ⟨rfl, ?_, ?_, h3⟩
    · intro x
      show ISet.mem (cleanupSackedIntervals t (wrap32 A) (wrap32 A')).ivs x = true ↔ _
      unfold cleanupSackedIntervals
      simp only
      rw [mem_foldl_erase, hr.pts x, Bool.eq_false_iff]
      have hm := mem_intervals_abs A A' x h1 h2
      constructor
      · rintro ⟨⟨p, hp1, hp2, hp3⟩, hn⟩
        refine ⟨p, hp1, ?_, hp3⟩
        by_cases hle : p ≤ A'
        · exact absurd (hm.2 ⟨p, by omega, hle, hp1⟩) hn
        · omega
      · rintro ⟨p, hp1, hp2, hp3⟩
        have hw := hr.win p hp3 (by omega)
        refine ⟨⟨p, hp1, by omega, hp3⟩, ?_⟩
        intro hc
        obtain ⟨q, hq1, hq2, hq3⟩ := hm.1 hc
        unfold half at hw
        unfold wrap32 at hp1 hq3
        omega
    · intro p hp hA
      have := hr.win p hp (by omega)
      unfold half at *; omega

/-! ### SACK blocks -/

theorem mem_foldl_insert (ivs : List Ivl) (s : ISet) (x : Nat) :
    ISet.mem (ivs.foldl (fun s i => insertIvl s i.lo i.hi) s) x = true ↔
      (ISet.mem s x = true ∨ ISet.mem ivs x = true) := by
  induction ivs generalizing s with
  | nil => simp [ISet.mem]
  | cons i r ih =>
    simp only [List.foldl_cons, ih, mem_insertIvl, mem_cons, Bool.or_eq_true, decide_eq_true_eq]
    generalize ISet.mem r x = m; generalize ISet.mem s x = m'
    cases m <;> cases m' <;> simp

/-- when every interval starts above the ACK number, the inner loop of `process_sack` only inserts -/
theorem foldl_sackInterval_high (ivs : List Ivl) (t : Tracker)
    (h : ∀ i ∈ ivs, ¬ seqCompare i.lo t.ack ≤ 0) :
    ivs.foldl sackInterval t = { t with ivs := ivs.foldl (fun s i => insertIvl s i.lo i.hi) t.ivs } := by
  induction ivs generalizing t with
  | nil => rfl
  | cons i r ih =>
    have hi := h i List.mem_cons_self
    simp only [List.foldl_cons]
    have : sackInterval t i = { t with ivs := insertIvl t.ivs i.lo i.hi } := by
      unfold sackInterval; rw [if_neg hi]
    rw [this, ih]
    intro j hj; exact h j (List.mem_cons_of_mem _ hj)

theorem wrap_pred (r : Nat) (h : 0 < r) : wrap32 (wrap32 r + 4294967295) = wrap32 (r - 1) := by
  unfold wrap32; omega

/-- the conditions under which a SACK block `[l, r)` is processed by insertion only -/
theorem sackBlock_conforming {A : Nat} {t : Tracker} (hack : t.ack = wrap32 A) (l r : Nat)
    (h1 : A < l) (h2 : l < r) (h3 : r ≤ A + half) :
    sackBlock t (wrap32 l) (wrap32 r) =
      { t with ivs := (Range.mk (wrap32 l) (wrap32 (r - 1))).intervals.foldl
                        (fun s i => insertIvl s i.lo i.hi) t.ivs } := by
  unfold half at h3
  unfold sackBlock
  have c1 : seqCompare (wrap32 l) (wrap32 r) < 0 := by
    rw [seqCompare_abs l r (by omega) (by omega), if_neg (by omega), if_pos h2]; decide
  rw [if_pos c1]
  unfold sackRange
  simp only [wrap_pred r (by omega)]
  have c2 : seqCompare (wrap32 (r - 1)) t.ack > 0 := by
    rw [hack, seqCompare_abs (r - 1) A (by omega) (by omega), if_neg (by omega), if_neg (by omega)]; decide
  rw [if_pos c2]
  apply foldl_sackInterval_high
  intro i hi
  obtain ⟨p, q, hp1, hp2, hp3, hlo, _⟩ := interval_of_abs l (r - 1) (by omega) (by omega) i hi
  rw [hlo, hack, seqCompare_abs p A (by omega) (by omega), if_neg (by omega), if_neg (by omega)]; decide

theorem rep_sackBlock {A : Nat} {seen : List Blk} {t : Tracker} (hr : Rep A seen t) (l r : Nat)
    (h1 : A < l) (h2 : l < r) (h3 : r ≤ A + half) :
    Rep A (seen ++ [(l, r)]) (sackBlock t (wrap32 l) (wrap32 r)) := by
  rw [sackBlock_conforming hr.ack l r h1 h2 h3]
  unfold half at h3
  refine ⟨hr.ack, ?_, ?_, ?_⟩
  · intro x
    simp only
    rw [mem_foldl_insert, hr.pts x, mem_intervals_abs l (r - 1) x (by omega) (by omega)]
    constructor
    · rintro (⟨p, hp1, hp2, hp3⟩ | ⟨p, hp1, hp2, hp3⟩)
      · exact ⟨p, hp1, hp2, by rw [sacked_append, hp3]; rfl⟩
      · refine ⟨p, hp3, by omega, ?_⟩
        rw [sacked_append, sacked_single]
        have : decide (l ≤ p ∧ p < r) = true := by simp; omega
        rw [this]; simp
    · rintro ⟨p, hp1, hp2, hp3⟩
      rw [sacked_append, sacked_single, Bool.or_eq_true, decide_eq_true_eq] at hp3
      rcases hp3 with hp3 | hp3
      · exact Or.inl ⟨p, hp1, hp2, hp3⟩
      · exact Or.inr ⟨p, hp3.1, by omega, hp1⟩
  · intro p hp hA
    rw [sacked_append, sacked_single, Bool.or_eq_true, decide_eq_true_eq] at hp
    rcases hp with hp | hp
    · exact hr.win p hp hA
    · unfold half; omega
  · rw [sacked_append, sacked_single, hr.hole]
    simp; omega

/-- the edge vector `TCP::sack` carries for a list of blocks: left and right edge of each block, mod 2^32 -/
def edgesOf (bs : List Blk) : List Nat := bs.flatMap (fun b => [wrap32 b.1, wrap32 b.2])

theorem rep_processSack {A : Nat} {seen : List Blk} {t : Tracker} (hr : Rep A seen t) (bs : List Blk)
    (hb : ∀ b ∈ bs, A < b.1 ∧ b.1 < b.2 ∧ b.2 ≤ A + half) :
    Rep A (seen ++ bs) (processSack t (edgesOf bs)) := by
  induction bs generalizing seen t with
  | nil => simpa [edgesOf, processSack] using hr
  | cons b r ih =>
    have hb0 := hb b List.mem_cons_self
    have hstep := rep_sackBlock hr b.1 b.2 hb0.1 hb0.2.1 hb0.2.2
    have := ih hstep (fun c hc => hb c (List.mem_cons_of_mem _ hc))
    simp only [edgesOf, List.flatMap_cons, List.cons_append, List.nil_append, processSack] at this ⊢
    rw [List.append_assoc] at this
    simpa using this

/-! ### `use_sack_` is never switched off -/

theorem foldl_sackInterval_useSack (ivs : List Ivl) (t : Tracker) :
    (ivs.foldl sackInterval t).useSack = t.useSack := by
  induction ivs generalizing t with
  | nil => rfl
  | cons i r ih =>
    simp only [List.foldl_cons, ih]
    unfold sackInterval; split <;> rfl

theorem sackRange_useSack (t : Tracker) (r : Range) : (sackRange t r).useSack = t.useSack := by
  unfold sackRange
  split
  · rw [foldl_sackInterval_useSack]
  · rfl

theorem sackBlock_useSack (t : Tracker) (l r : Nat) : (sackBlock t l r).useSack = t.useSack := by
  unfold sackBlock
  split
  · rw [sackRange_useSack]
  · rfl

theorem processSack_useSack (e : List Nat) (t : Tracker) : (processSack t e).useSack = t.useSack := by
  fun_induction processSack t e with
  | case1 t l r rest ih => rw [ih, sackBlock_useSack]
  | case2 t e h => rfl

theorem ackStep_useSack (t : Tracker) (a : Nat) : (ackStep t a).useSack = t.useSack := by
  unfold ackStep; split <;> rfl

/-! ### whole packets and histories -/

/-- the tracker is handed the packet `k` (positions mod 2^32, blocks as the edge vector of its SACK option) -/
def feed (t : Tracker) (k : Pkt) : Tracker :=
  (processPacket t (wrap32 k.ack) (.edges (edgesOf k.blocks))).1

def run (t : Tracker) (h : List Pkt) : Tracker := h.foldl feed t

theorem feed_useSack (t : Tracker) (k : Pkt) : (feed t k).useSack = t.useSack := by
  unfold feed processPacket
  simp only
  split
  · simp only [processSack_useSack, ackStep_useSack]
  · exact ackStep_useSack _ _

theorem rep_feed {A : Nat} {seen : List Blk} {t : Tracker} (hr : Rep A seen t) (hs : t.useSack = true)
    (k : Pkt) (hk : pktOK A seen k = true) :
    Rep k.ack (seen ++ k.blocks) (feed t k) := by
  unfold pktOK at hk
  simp only [Bool.and_eq_true, decide_eq_true_eq, List.all_eq_true, Bool.not_eq_true'] at hk
  obtain ⟨⟨⟨h1, h2⟩, h3⟩, h4⟩ := hk
  have hstep := rep_ackStep hr k.ack h1 h2 h4
  unfold feed processPacket
  simp only [ackStep_useSack, hs, if_true]
  exact rep_processSack hstep k.blocks (fun b hb => by
    have := h3 b hb; omega)

/-- Main invariant: after any conforming history the tracker represents the observer's knowledge. -/
theorem rep_run {A : Nat} {seen : List Blk} {t : Tracker} (h : List Pkt) (hr : Rep A seen t)
    (hs : t.useSack = true) (hc : conforming A seen h = true) :
    Rep (cumAck A h) (allBlocks seen h) (run t h) := by
  induction h generalizing A seen t with
  | nil => simpa [cumAck, allBlocks, run] using hr
  | cons k rest ih =>
    simp only [conforming, Bool.and_eq_true] at hc
    have hstep := rep_feed hr hs k hc.1
    have := ih hstep (by rw [feed_useSack, hs]) hc.2
    simpa [cumAck, allBlocks, run] using this

/-! ### queries -/

/-- one interval of the query range: its test in `is_segment_acked` against the byte-level definition -/
theorem piece_iff {A : Nat} {seen : List Blk} {t : Tracker} (hr : Rep A seen t) (i : Ivl) (p q : Nat)
    (hpq : p ≤ q) (hlo : i.lo = wrap32 p) (hhi : i.hi = wrap32 q) (hlen : q - p = i.hi - i.lo) (hle : i.lo ≤ i.hi)
    (hp : A < p + half) (hq : q < A + half) :
    (!(decide (seqCompare i.hi t.ack ≥ 0) && !containsIvl t.ivs i.lo i.hi)) = true ↔
      ∀ z, p ≤ z → z ≤ q → ackedByte A seen z := by
  have hcont : containsIvl t.ivs i.lo i.hi = true ↔ ∀ z, p ≤ z → z ≤ q → (A < z ∧ sacked seen z = true) := by
    rw [containsIvl_iff _ _ _ hle]
    constructor
    · intro h z hz1 hz2
      have hx := h (wrap32 z) (by unfold wrap32 at *; omega) (by unfold wrap32 at *; omega)
      obtain ⟨p', e1, e2, e3⟩ := (hr.pts _).1 hx
      have hw := hr.win p' e3 e2
      have : p' = z := by unfold wrap32 half at *; omega
      subst this; exact ⟨e2, e3⟩
    · intro h x hx1 hx2
      have ⟨h1, h2⟩ := h (p + (x - i.lo)) (by omega) (by omega)
      exact (hr.pts x).2 ⟨p + (x - i.lo), by unfold wrap32 at *; omega, h1, h2⟩
  unfold half at hp hq
  rw [hr.ack, hhi, seqCompare_abs q A (by omega) (by omega)]
  by_cases hqA : q < A
  · have hc : (if q = A then (0 : Int) else if q < A then -1 else 1) = -1 := by
      rw [if_neg (by omega), if_pos hqA]
    rw [hc]
    constructor
    · intro _ z _ hz; exact Or.inl (by omega)
    · intro _
      have : decide ((-1 : Int) ≥ 0) = false := by decide
      rw [this]; rfl
  · have hc : decide ((if q = A then (0 : Int) else if q < A then -1 else 1) ≥ 0) = true := by
      rw [if_neg hqA]; split <;> decide
    rw [hc]
    simp only [Bool.true_and, Bool.not_not]
    rw [← hhi, hcont]
    constructor
    · intro h z hz1 hz2; exact Or.inr (h z hz1 hz2).2
    · intro h z hz1 hz2
      have hA : ¬ (p ≤ A) := by
        intro hpA
        rcases h A hpA (by omega) with h' | h'
        · omega
        · rw [hr.hole] at h'; cases h'
      rcases h z hz1 hz2 with h' | h'
      · omega
      · exact ⟨by omega, h'⟩

theorem wrap_last (s n : Nat) (h : 0 < n) : wrap32 (wrap32 s + n + 4294967295) = wrap32 (s + n - 1) := by
  unfold wrap32; omega

/-- `is_segment_acked` answers exactly the byte-level question, for every query inside the window -/
theorem isSegmentAcked_iff {A : Nat} {seen : List Blk} {t : Tracker} (hr : Rep A seen t) (s n : Nat)
    (hd : queryInDomain A s n = true) :
    isSegmentAcked t (wrap32 s) n = true ↔ SegAcked A seen s n := by
  unfold queryInDomain at hd
  simp only [Bool.and_eq_true, decide_eq_true_eq] at hd
  obtain ⟨⟨hd1, hd2⟩, hd3⟩ := hd
  unfold isSegmentAcked
  by_cases hn : n = 0
  · subst hn; simp only [if_true, true_iff]; intro p h1 h2; omega
  · rw [if_neg hn]
    simp only [wrap_last s n (by omega), List.all_eq_true]
    unfold half at hd1 hd2 hd3
    have hab : s ≤ s + n - 1 := by omega
    have hw : s + n - 1 < s + 2147483648 := by omega
    constructor
    · intro h z hz1 hz2
      have hm := (mem_intervals_abs s (s + n - 1) (wrap32 z) hab hw).2 ⟨z, hz1, by omega, rfl⟩
      obtain ⟨i, hi, hiz⟩ := List.any_eq_true.1 hm
      simp only [decide_eq_true_eq] at hiz
      obtain ⟨p, q, h1, h2, h3, hlo, hhi, hlen, hle⟩ := interval_of_abs s (s + n - 1) hab hw i hi
      refine (piece_iff hr i p q h2 hlo hhi hlen hle (by unfold half; omega) (by unfold half; omega)).1 (h i hi) z
        ?_ ?_ <;> (unfold wrap32 at *; omega)
    · intro h i hi
      obtain ⟨p, q, h1, h2, h3, hlo, hhi, hlen, hle⟩ := interval_of_abs s (s + n - 1) hab hw i hi
      apply (piece_iff hr i p q h2 hlo hhi hlen hle (by unfold half; omega) (by unfold half; omega)).2
      intro z hz1 hz2
      exact h z (by omega) (by omega)

/-! ### canonical form along histories (conforming or not) -/

theorem edgesOf_lt (bs : List Blk) : ∀ x ∈ edgesOf bs, x < 4294967296 := by
  intro x hx
  unfold edgesOf at hx
  simp only [List.mem_flatMap, List.mem_cons, List.mem_nil_iff, or_false] at hx
  obtain ⟨b, _, hx | hx⟩ := hx <;> subst hx <;> exact wrap32_lt _

theorem good_feed (t : Tracker) (k : Pkt) (hg : Good t) : Good (feed t k) := by
  unfold feed
  apply good_processPacket t _ _ hg (wrap32_lt _)
  intro e he
  cases he
  exact edgesOf_lt k.blocks

theorem good_run (t : Tracker) (h : List Pkt) (hg : Good t) : Good (run t h) := by
  induction h generalizing t with
  | nil => exact hg
  | cons k rest ih => exact ih _ (good_feed t k hg)

/-! ### SACK option bytes -/

theorem encodeEdges_length (es : List Nat) : (encodeEdges es).length = 4 * es.length := by
  induction es with
  | nil => rfl
  | cons e r ih => simp only [encodeEdges, List.length_cons, ih]; omega

theorem decodeEdges_encodeEdges (es : List Nat) (h : ∀ e ∈ es, e < 4294967296) :
    decodeEdges (encodeEdges es) = es := by
  induction es with
  | nil => rfl
  | cons e r ih =>
    have he := h e List.mem_cons_self
    simp only [encodeEdges, decodeEdges, ih (fun x hx => h x (List.mem_cons_of_mem _ hx))]
    congr 1
    simp only [UInt8.toNat_ofNat']
    omega

/-- the SACK option written by `TCP::sack` decodes to the same edge vector -/
theorem decodeSack_encodeEdges (es : List Nat) (h : ∀ e ∈ es, e < 4294967296) :
    decodeSack (encodeEdges es) = .edges es := by
  unfold decodeSack
  rw [encodeEdges_length, decodeEdges_encodeEdges es h]
  have : (4 * es.length % 4 != 0) = false := by simp
  rw [this]; rfl

/-! ### SACK processing switched off -/

/-- cumulative ACKs that never move backwards and advance by less than half the sequence space -/
def acksOK : Nat → List Pkt → Bool
  | _, [] => true
  | A, k :: rest => decide (A ≤ k.ack) && decide (k.ack < A + half) && acksOK k.ack rest

theorem feed_noSack (t : Tracker) (k : Pkt) (hs : t.useSack = false) : feed t k = ackStep t (wrap32 k.ack) := by
  unfold feed processPacket
  simp only [ackStep_useSack, hs]
  rfl

theorem rep_run_noSack {A : Nat} {t : Tracker} (h : List Pkt) (hr : Rep A [] t) (hs : t.useSack = false)
    (hc : acksOK A h = true) : Rep (cumAck A h) [] (run t h) := by
  induction h generalizing A t with
  | nil => simpa [cumAck, run] using hr
  | cons k rest ih =>
    simp only [acksOK, Bool.and_eq_true, decide_eq_true_eq] at hc
    have hstep := rep_ackStep hr k.ack hc.1.1 hc.1.2 rfl
    rw [← feed_noSack t k hs] at hstep
    have := ih hstep (by rw [feed_useSack, hs]) hc.2
    simpa [cumAck, run] using this

end Tins.Ack
