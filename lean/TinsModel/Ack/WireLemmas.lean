import TinsModel.Ack.Wire
import TinsModel.Ack.Refine
import TinsModel.Ack.Canon
import TinsModel.Wire.Transport.ThTcpApi
/-
  Lemmas for the wire composition (`Ack/Wire.lean`): the typed SACK decoder of the Transport family is the edge decoder
  of the tracker model; the reference encoder's bytes are parsed back to the header fields and the option list; a
  conforming packet encoded as a segment drives the tracker exactly as `feed` does.
-/
namespace Tins.Ack
open Tins Tins.Wire Tins.Wire.Transport

/-! ### the `vector<uint32_t>` converter: Transport's stream loop = the tracker model's `decodeEdges` -/

theorem beNat_four (a b c d : UInt8) :
    Cursor.beNat [a, b, c, d] = a.toNat * 16777216 + b.toNat * 65536 + c.toNat * 256 + d.toNat := by
  simp only [Cursor.beNat, List.foldl_cons, List.foldl_nil]
  omega

theorem decodeWords_eq (fuel : Nat) (m : Bytes) (hm : m.length % 4 = 0) (hf : m.length < fuel) :
    Tcp.decodeWords fuel ⟨m, m.length⟩ = .ok (decodeEdges m) := by
  induction fuel generalizing m with
  | zero => omega
  | succ f ih =>
    unfold Tcp.decodeWords
    match m, hm, hf with
    | [], _, _ => simp [Cursor.toBool, decodeEdges]
    | [_], h, _ => simp at h
    | [_, _], h, _ => simp at h
    | [_, _, _], h, _ => simp at h
    | a :: b :: c :: d :: r, h, hf =>
      have hb : (⟨a :: b :: c :: d :: r, (a :: b :: c :: d :: r).length⟩ : Cursor).toBool = true := by
        simp [Cursor.toBool]
      have h1 := readBE_full (a :: b :: c :: d :: r) 4
      have hn : ¬ (a :: b :: c :: d :: r).length < 4 := by simp
      simp only [hn, if_false] at h1
      have hr : r.length % 4 = 0 := by simp only [List.length_cons] at h; omega
      have hrf : r.length < f := by simp only [List.length_cons] at hf; omega
      simp only [hb, Bool.not_true, Bool.false_eq_true, if_false, h1, bind, Out.bind]
      have : List.drop 4 (a :: b :: c :: d :: r) = r := rfl
      rw [this, ih r hr hrf]
      simp only [pure, decodeEdges]
      have : List.take 4 (a :: b :: c :: d :: r) = [a, b, c, d] := rfl
      rw [this, beNat_four]

/-- `sack_option->to<TCP::sack_type>()` as the Transport family models it is the tracker model's decoder: a data size
    that is not a multiple of four throws `malformed_option`, otherwise the big-endian words -/
theorem tcp_decodeSack_eq (o : TcpOpt) :
    Tcp.decodeSack o = if o.data.length % 4 != 0 then .throw .malformedOption else .ok (decodeEdges o.data) := by
  unfold Tcp.decodeSack
  by_cases h : o.data.length % 4 = 0
  · simp only [h, bne_self_eq_false, Bool.false_eq_true, if_false, Cursor.ofBytes]
    exact decodeWords_eq _ _ h (by omega)
  · simp [h]

/-- the SACK view of a parsed TCP object, in the tracker model's terms -/
def sackView (tcp : Tcp) : SackOpt :=
  match tcp.searchOption Tcp.SACK with
  | none => .absent
  | some o => decodeSack o.data

theorem sackOf_eq (tcp : Tcp) : sackOf tcp = .ok (sackView tcp) := by
  unfold sackOf sackView
  cases hs : tcp.searchOption Tcp.SACK with
  | none => rfl
  | some o =>
    simp only [tcp_decodeSack_eq]
    unfold decodeSack
    by_cases h : o.data.length % 4 = 0 <;> simp [h]

theorem processTcp_eq (t : Tracker) (tcp : Tcp) :
    processTcp t tcp =
      ((processPacket t tcp.ackSeq (sackView tcp)).1,
        if (processPacket t tcp.ackSeq (sackView tcp)).2 then .malformedOption else .done) := by
  unfold processTcp
  rw [sackOf_eq]

/-! ### the reference encoder is read back by the parsing constructor -/

theorem refOpt_eq (o : TcpOpt) (h : Tcp.Canon o) : refOpt o = Tcp.optBytes o := by
  unfold refOpt Tcp.optBytes
  by_cases h1 : o.code ≤ 1
  · have : ¬ o.code > 1 := by omega
    simp [h1, this]
  · have h2 : o.code > 1 := by omega
    have hlo : Tcp.lengthOctet o = o.data.length + 2 := by
      have := h.size
      simp only [Tcp.lengthOctet, h.len, beq_self_eq_true, if_true]; omega
    simp [h1, h2, hlo]

theorem refOpts_eq (os : List TcpOpt) (h : ∀ o ∈ os, Tcp.Canon o) : refOpts os = Tcp.optsBytes os := by
  induction os with
  | nil => rfl
  | cons o r ih =>
    simp only [refOpts, Tcp.optsBytes, List.flatMap_cons] at ih ⊢
    rw [refOpt_eq o (h o List.mem_cons_self), ih (fun x hx => h x (List.mem_cons_of_mem _ hx))]

theorem refOptArea_eq (os : List TcpOpt) (h : ∀ o ∈ os, Tcp.Canon o) :
    refOptArea os = Tcp.optsBytes os ++ List.replicate (Tcp.padded (Tcp.optsSum os) - Tcp.optsSum os) 0 ∧
    (refOptArea os).length = Tcp.padded (Tcp.optsSum os) := by
  have hl := tcp_optsBytes_length os
  have hp := tcp_padded_spec (Tcp.optsSum os)
  have hpad : (4 - Tcp.optsSum os % 4) % 4 = Tcp.padded (Tcp.optsSum os) - Tcp.optsSum os := by
    unfold Tcp.padded; omega
  unfold refOptArea
  simp only [refOpts_eq os h, hl, hpad, List.length_append, List.length_replicate, true_and]
  omega

/-- the header the reference encoder lays down, as a TCP object -/
def refHeader (h : Tcp) (os : List TcpOpt) : Tcp :=
  { h with doff := (20 + Tcp.padded (Tcp.optsSum os)) / 4, check := 0, opts := [] }

theorem refSegment_eq (h : Tcp) (os : List TcpOpt) (payload : Bytes) (hc : ∀ o ∈ os, Tcp.Canon o) :
    refSegment h os payload =
      (refHeader h os).headerBytes ++ Tcp.optsBytes os ++
        List.replicate (Tcp.padded (Tcp.optsSum os) - Tcp.optsSum os) 0 ++ payload := by
  have ⟨ha, hl⟩ := refOptArea_eq os hc
  unfold refSegment
  simp only [hl]
  rw [ha]
  simp only [Tcp.headerBytes, refHeader, List.append_assoc]

/-- **layout round trip**: 20 header bytes of an object satisfying the invariant whose data offset covers the padded
    option area, the encodings of canonical options that fit the 40-byte option area, END padding, payload — the parsing
    constructor returns exactly that object with exactly those options (the proof of `tcp_reparse`, for any header) -/
theorem tcp_parse_layout (t : Tcp) (hi : t.Inv) (os : List TcpOpt) (hc : ∀ o ∈ os, Tcp.Canon o)
    (hs : Tcp.optsSum os ≤ 40) (hd : t.doff = (20 + Tcp.padded (Tcp.optsSum os)) / 4) (payload : Bytes) :
    Tcp.parse (t.headerBytes ++ Tcp.optsBytes os ++
        List.replicate (Tcp.padded (Tcp.optsSum os) - Tcp.optsSum os) 0 ++ payload) =
      .ok ({ t with opts := os }, if payload.length > 0 then .raw payload else .none) := by
  have hp := tcp_padded_spec (Tcp.optsSum os)
  generalize hS : Tcp.optsSum os = S at *
  generalize hP : Tcp.padded S = P at *
  have hHB := tcp_headerBytes_length t
  generalize hHBe : t.headerBytes = HB at *
  have hol : (HB ++ Tcp.optsBytes os ++ List.replicate (P - S) 0 ++ payload).length = 20 + P + payload.length := by
    simp only [List.length_append, hHB, tcp_optsBytes_length, hS, List.length_replicate]; omega
  rw [tcp_parse_unfold, hol]
  have h20 : ¬ 20 + P + payload.length < 20 := by omega
  simp only [h20, if_false]
  have htake : (HB ++ Tcp.optsBytes os ++ List.replicate (P - S) 0 ++ payload).take 20 = HB := by
    rw [List.append_assoc, List.append_assoc]; exact take_append_len _ _ 20 hHB
  have hdrop : (HB ++ Tcp.optsBytes os ++ List.replicate (P - S) 0 ++ payload).drop 20 =
      Tcp.optsBytes os ++ (List.replicate (P - S) 0 ++ payload) := by
    rw [List.append_assoc, List.append_assoc]; exact drop_append_len _ _ 20 hHB
  rw [htake, hdrop, ← hHBe, tcp_ofHeader_headerBytes _ hi]
  have hd4 : t.doff * 4 = 20 + P := by rw [hd]; omega
  simp only [hd4]
  have hchk : (decide (20 + P > 20 + P + payload.length) || decide (20 + P < 20)) = false := by
    have h1 : ¬ 20 + P > 20 + P + payload.length := by omega
    have h2 : ¬ 20 + P < 20 := by omega
    simp [h1, h2]
  simp only [hchk, Bool.false_eq_true, if_false]
  have hrt := tcp_parseOpts_roundtrip os hc (List.replicate (P - S) 0 ++ payload) (20 + P + payload.length - 20) 20 (20 + P)
    (20 + P + 1 - os.length) [] (by rw [hS]; omega) (by rw [hS]; omega)
  have hlenS : os.length ≤ S := by
    rw [← hS]; clear hrt hc hs hi hd hp hol htake hdrop hd4 hchk hS
    induction os with
    | nil => simp
    | cons o os ih => simp only [List.length_cons, Tcp.optsSum, Tcp.optSize]; omega
  have hfe : os.length + (20 + P + 1 - os.length) = 20 + P + 1 := by omega
  rw [hfe, hS, List.nil_append] at hrt
  rw [hrt]
  have hf1 : 20 + P + 1 - os.length = (20 + P - os.length) + 1 := by omega
  rw [hf1, tcp_parseOpts_padding (P - S) payload (20 + P + payload.length - 20 - S) (20 + S) (20 + P) _ os
    (by omega) (by omega)]
  simp only [bind, Out.bind, Tcp.finish, toBool_mk]
  by_cases hgt : payload.length > 0
  · have : 20 + P + payload.length - 20 - S - (P - S) > 0 := by omega
    simp only [this, decide_true, if_true, hgt]
    rw [rest_mk _ _ _ (by omega)]
    simp only [pure]
    congr 3
    apply List.take_of_length_le
    omega
  · have : ¬ 20 + P + payload.length - 20 - S - (P - S) > 0 := by omega
    simp only [this, decide_false, Bool.false_eq_true, if_false, hgt, pure]

theorem refHeader_inv (h : Tcp) (os : List TcpOpt) (hi : h.Inv) (hs : Tcp.optsSum os ≤ 40) : (refHeader h os).Inv := by
  have hp := tcp_padded_spec (Tcp.optsSum os)
  exact ⟨hi.sport, hi.dport, hi.seq, hi.ackSeq, by simp only [refHeader]; omega, hi.res1, hi.flags8, hi.window,
    by simp only [refHeader]; omega, hi.urgPtr, by intro o ho; simp [refHeader] at ho⟩

/-- **the reference encoder is read back**: every header field, the option list in order, the payload -/
theorem parse_refSegment (h : Tcp) (os : List TcpOpt) (payload : Bytes) (hi : h.Inv)
    (hc : ∀ o ∈ os, Tcp.Canon o) (hs : Tcp.optsSum os ≤ 40) :
    Tcp.parse (refSegment h os payload) =
      .ok ({ refHeader h os with opts := os }, if payload.length > 0 then .raw payload else .none) := by
  rw [refSegment_eq h os payload hc]
  exact tcp_parse_layout (refHeader h os) (refHeader_inv h os hi hs) os hc hs rfl payload

/-! ### a packet of the specification, encoded as a segment -/
open Tins.Ack.Spec

/-- everything about the segment the specification does not fix: the other header fields, the options in front of and
    behind the SACK option (NOP padding, timestamps, …), whether a packet without blocks carries an (empty) SACK option
    or none, and the payload -/
structure SegShape where
  hdr : Tcp
  pre : List TcpOpt
  post : List TcpOpt
  omitEmpty : Bool
  payload : Bytes

/-- the SACK option of the packet, if it carries one -/
def SegShape.sack (sh : SegShape) (k : Pkt) : List TcpOpt :=
  if sh.omitEmpty && k.blocks.isEmpty then [] else [sackOption (edgesOf k.blocks)]

def SegShape.opts (sh : SegShape) (k : Pkt) : List TcpOpt := sh.pre ++ sh.sack k ++ sh.post

/-- the packet `k` on the wire: cumulative ACK in the header (mod 2^32), the blocks in a SACK option (RFC 2018) -/
def encodeSeg (sh : SegShape) (k : Pkt) : Bytes :=
  refSegment { sh.hdr with ackSeq := wrap32 k.ack } (sh.opts k) sh.payload

/-- the shape is one the wire can carry: 16/32-bit header fields, well-formed other options none of which is a second
    SACK option, at most 40 option bytes (hence at most 4 blocks) -/
structure SegShape.OK (sh : SegShape) (k : Pkt) : Prop where
  hdr : sh.hdr.Inv
  canon : ∀ o ∈ sh.pre ++ sh.post, Tcp.Canon o
  oneSack : ∀ o ∈ sh.pre ++ sh.post, o.code ≠ Tcp.SACK
  fits : Tcp.optsSum (sh.opts k) ≤ 40

theorem encodeEdges_edgesOf_length (bs : List Blk) : (encodeEdges (edgesOf bs)).length = 8 * bs.length := by
  rw [encodeEdges_length]
  induction bs with
  | nil => rfl
  | cons b r ih => simp only [edgesOf, List.flatMap_cons, List.length_append, List.length_cons, List.length_nil] at ih ⊢; omega

theorem optsSum_single (o : TcpOpt) : Tcp.optsSum [o] = Tcp.optSize o := by simp [Tcp.optsSum]

theorem SegShape.OK.blocks_le {sh : SegShape} {k : Pkt} (h : sh.OK k) : k.blocks.length ≤ 4 := by
  have hf := h.fits
  unfold SegShape.opts SegShape.sack at hf
  by_cases hb : k.blocks.isEmpty
  · have : k.blocks = [] := List.isEmpty_iff.mp hb
    rw [this]; simp
  · simp only [hb, Bool.and_false, Bool.false_eq_true, if_false, Tcp.optsSum_append, optsSum_single] at hf
    have hl := encodeEdges_edgesOf_length k.blocks
    have : Tcp.optSize (sackOption (edgesOf k.blocks)) = 2 + 8 * k.blocks.length := by
      simp [Tcp.optSize, sackOption, Tcp.SACK, hl]; omega
    omega

theorem SegShape.OK.canon_opts {sh : SegShape} {k : Pkt} (h : sh.OK k) : ∀ o ∈ sh.opts k, Tcp.Canon o := by
  intro o ho
  unfold SegShape.opts at ho
  simp only [List.mem_append] at ho
  rcases ho with (ho | ho) | ho
  · exact h.canon o (List.mem_append_left _ ho)
  · unfold SegShape.sack at ho
    split at ho
    · cases ho
    · simp only [List.mem_singleton] at ho
      subst ho
      have hl := encodeEdges_edgesOf_length k.blocks
      have hb := h.blocks_le
      exact ⟨by simp [sackOption, Tcp.SACK], rfl, by simp [sackOption, Tcp.SACK], by simp only [sackOption, hl]; omega⟩
  · exact h.canon o (List.mem_append_right _ ho)

theorem find_none_of_ne (l : List TcpOpt) (h : ∀ o ∈ l, o.code ≠ Tcp.SACK) :
    l.find? (fun o => o.code == Tcp.SACK) = none := by
  rw [List.find?_eq_none]
  intro o ho
  simp [h o ho]

/-- what `search_option(SACK)` + `to<sack_type>()` see on the encoded packet -/
theorem sackView_shape (sh : SegShape) (k : Pkt) (h : sh.OK k) (t : Tcp) (ht : t.opts = sh.opts k) :
    sackView t = if sh.omitEmpty && k.blocks.isEmpty then .absent else .edges (edgesOf k.blocks) := by
  unfold sackView Tcp.searchOption
  rw [ht]
  unfold SegShape.opts SegShape.sack
  have hpre := find_none_of_ne sh.pre (fun o ho => h.oneSack o (List.mem_append_left _ ho))
  have hpost := find_none_of_ne sh.post (fun o ho => h.oneSack o (List.mem_append_right _ ho))
  by_cases hb : (sh.omitEmpty && k.blocks.isEmpty) = true
  · simp only [hb, if_true, List.append_nil, List.find?_append, hpre, hpost, Option.or_none]
  · simp only [hb, Bool.false_eq_true, if_false, List.find?_append, hpre, Option.none_or, List.find?_cons]
    have : (sackOption (edgesOf k.blocks)).code == Tcp.SACK := by simp [sackOption]
    simp only [this, Option.some_or]
    exact decodeSack_encodeEdges _ (edgesOf_lt k.blocks)

/-- **one packet**: `process_packet(TCP(bytes))` on the encoded packet is `feed` — from *any* tracker state -/
theorem wireStep_encodeSeg (t : Tracker) (sh : SegShape) (k : Pkt) (h : sh.OK k) :
    processWire t (encodeSeg sh k) = (feed t k, .done) := by
  have hi : ({ sh.hdr with ackSeq := wrap32 k.ack } : Tcp).Inv :=
    ⟨h.hdr.sport, h.hdr.dport, h.hdr.seq, wrap32_lt _, h.hdr.doff, h.hdr.res1, h.hdr.flags8, h.hdr.window, h.hdr.check,
      h.hdr.urgPtr, h.hdr.opts⟩
  unfold processWire encodeSeg
  rw [parse_refSegment _ _ _ hi h.canon_opts h.fits]
  simp only [processTcp_eq]
  rw [sackView_shape sh k h _ rfl]
  have hack : ({ refHeader { sh.hdr with ackSeq := wrap32 k.ack } (sh.opts k) with opts := sh.opts k } : Tcp).ackSeq
      = wrap32 k.ack := rfl
  rw [hack]
  unfold feed
  by_cases hb : (sh.omitEmpty && k.blocks.isEmpty) = true
  · have hnil : k.blocks = [] := by
      simp only [Bool.and_eq_true] at hb; exact List.isEmpty_iff.mp hb.2
    rw [if_pos hb]
    have he : edgesOf k.blocks = [] := by rw [hnil]; rfl
    rw [he]
    unfold processPacket
    simp only
    split <;> simp [processSack]
  · rw [if_neg hb]
    unfold processPacket
    simp only
    split <;> simp

/-- **a history**: the tracker fed the encoded segments is the tracker fed the packets -/
theorem wireRun_encode (t : Tracker) (h : List (Pkt × SegShape)) (hok : ∀ x ∈ h, x.2.OK x.1) :
    wireRun t (h.map (fun x => encodeSeg x.2 x.1)) = run t (h.map (·.1)) := by
  induction h generalizing t with
  | nil => rfl
  | cons x r ih =>
    simp only [List.map_cons, wireRun, run, List.foldl_cons]
    have : wireStep t (encodeSeg x.2 x.1) = feed t x.1 := by
      unfold wireStep; rw [wireStep_encodeSeg t x.2 x.1 (hok x List.mem_cons_self)]
    rw [this]
    exact ih (feed t x.1) (fun y hy => hok y (List.mem_cons_of_mem _ hy))

/-! ### any SACK option content: malformed lengths, odd edge counts -/

/-- **any option bytes**: a segment whose (only) SACK option carries the data bytes `d` — any bytes at all — drives the
    tracker as `processPacket` on `decodeSack d` -/
theorem processWire_refSegment (t : Tracker) (h : Tcp) (pre post : List TcpOpt) (d payload : Bytes) (hi : h.Inv)
    (hc : ∀ o ∈ pre ++ post, Tcp.Canon o) (h1 : ∀ o ∈ pre ++ post, o.code ≠ Tcp.SACK) (hd : d.length ≤ 253)
    (hf : Tcp.optsSum (pre ++ [⟨Tcp.SACK, d.length, d⟩] ++ post) ≤ 40) :
    processWire t (refSegment h (pre ++ [⟨Tcp.SACK, d.length, d⟩] ++ post) payload) =
      ((processPacket t h.ackSeq (decodeSack d)).1,
        if (processPacket t h.ackSeq (decodeSack d)).2 then .malformedOption else .done) := by
  have hcan : ∀ o ∈ pre ++ [⟨Tcp.SACK, d.length, d⟩] ++ post, Tcp.Canon o := by
    intro o ho
    simp only [List.mem_append, List.mem_singleton] at ho
    rcases ho with (ho | ho) | ho
    · exact hc o (List.mem_append_left _ ho)
    · subst ho; exact ⟨by simp [Tcp.SACK], rfl, by simp [Tcp.SACK], hd⟩
    · exact hc o (List.mem_append_right _ ho)
  unfold processWire
  rw [parse_refSegment _ _ _ hi hcan hf]
  simp only [processTcp_eq]
  have hv : sackView ({ refHeader h (pre ++ [⟨Tcp.SACK, d.length, d⟩] ++ post) with
      opts := pre ++ [⟨Tcp.SACK, d.length, d⟩] ++ post } : Tcp) = decodeSack d := by
    unfold sackView Tcp.searchOption
    have hpre := find_none_of_ne pre (fun o ho => h1 o (List.mem_append_left _ ho))
    simp only [List.find?_append, hpre, Option.none_or, List.find?_cons, beq_self_eq_true, Option.some_or]
  rw [hv]
  rfl

/-- `to<sack_type>()` fails exactly when the data size is not a multiple of four … -/
theorem decodeSack_malformed_iff (d : Bytes) : decodeSack d = .malformed ↔ d.length % 4 ≠ 0 := by
  unfold decodeSack
  by_cases h : d.length % 4 = 0 <;> simp [h]

/-- … and then `process_packet` has already processed the cumulative ACK when `malformed_option` leaves it: the tracker
    is left in the state `ackStep`, its intervals only trimmed by the new ACK -/
theorem processPacket_malformed (t : Tracker) (a : Nat) (hs : t.useSack = true) :
    processPacket t a .malformed = (ackStep t a, true) := by
  unfold processPacket
  simp only [ackStep_useSack, hs, if_true]

/-- an odd number of edges: the converter accepts it (its only test is `size % 4`), and the `for (i = 1; i < size; i += 2)`
    of `process_sack` never looks at the last one -/
theorem processSack_odd (x : Nat) : ∀ (es : List Nat) (t : Tracker), es.length % 2 = 0 →
    processSack t (es ++ [x]) = processSack t es
  | [], t, _ => by simp [processSack]
  | [_], _, h => by simp at h
  | l :: r :: rest, t, h => by
    simp only [List.cons_append, processSack]
    exact processSack_odd x rest _ (by simp only [List.length_cons] at h; omega)

/-- when `malformed_option` leaves `process_packet`, the tracker is in the state `ackStep` -/
theorem processPacket_thrown (t : Tracker) (a : Nat) (s : SackOpt) (h : (processPacket t a s).2 = true) :
    (processPacket t a s).1 = ackStep t a := by
  unfold processPacket at h ⊢
  simp only at h ⊢
  split
  · split <;> simp_all
  · rfl

/-- the decoded edges are 32-bit numbers, whatever the bytes -/
theorem decodeEdges_lt (d : Bytes) : ∀ x ∈ decodeEdges d, x < 4294967296 := by
  fun_induction decodeEdges d with
  | case1 a b c d r ih =>
    intro x hx
    simp only [List.mem_cons] at hx
    rcases hx with hx | hx
    · subst hx
      have := a.toNat_lt; have := b.toNat_lt; have := c.toNat_lt; have := d.toNat_lt
      omega
    · exact ih x hx
  | case2 d h => intro x hx; cases hx

/-! ### every byte string -/

/-- **no input is outside the model**: for every tracker state and every byte string, `TCP(bytes)` either throws
    `malformed_packet` (the tracker is not touched), or `process_packet` returns normally, or it throws
    `malformed_option` after having processed the cumulative ACK — nothing else (no fault of the parser, no other
    exception), and the state stays well-formed -/
theorem processWire_total (t : Tracker) (b : Bytes) (hg : Good t) :
    Good (processWire t b).1 ∧
    ((processWire t b).2 = .malformedPacket ∧ (processWire t b).1 = t ∨
     (processWire t b).2 = .done ∨
     ∃ a, a < 4294967296 ∧ (processWire t b).2 = .malformedOption ∧ (processWire t b).1 = ackStep t a) := by
  unfold processWire
  rcases tcp_parse_safe b with ⟨⟨tcp, inner⟩, hp⟩ | hp
  · rw [hp]
    simp only [processTcp_eq]
    have hinv := tcp_parse_inv b tcp inner hp
    have hgood : Good (processPacket t tcp.ackSeq (sackView tcp)).1 := by
      apply good_processPacket t _ _ hg hinv.ackSeq
      intro e he x hx
      unfold sackView at he
      split at he
      · cases he
      · rename_i o _
        unfold decodeSack at he
        split at he
        · cases he
        · injection he with he; subst he; exact decodeEdges_lt _ x hx
    refine ⟨hgood, ?_⟩
    by_cases h2 : (processPacket t tcp.ackSeq (sackView tcp)).2 = true
    · right; right
      exact ⟨tcp.ackSeq, hinv.ackSeq, by simp [h2], processPacket_thrown _ _ _ h2⟩
    · right; left; simp [h2]
  · rw [hp]
    exact ⟨hg, .inl ⟨rfl, rfl⟩⟩

theorem good_wireRun (t : Tracker) (segs : List Bytes) (hg : Good t) : Good (wireRun t segs) := by
  induction segs generalizing t with
  | nil => exact hg
  | cons b r ih => exact ih _ (processWire_total t b hg).1

end Tins.Ack
