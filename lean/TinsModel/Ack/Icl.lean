import TinsModel.Ack.Canon
/-
  The `boost::icl::interval_set<uint32_t>` parameter of property C19, made explicit.

  **Operations of the container the tracker uses** (src/tcp_ip/ack_tracker.cpp):
    * `acked_intervals_.insert(closed(lo, hi))`            — `process_sack`, always with `lo ≤ hi`
    * `acked_intervals_.erase(closed(lo, hi))`             — `cleanup_sacked_intervals`, always with `lo ≤ hi`
    * `boost::icl::contains(acked_intervals_, closed(lo, hi))` — `is_segment_acked`, always with `lo ≤ hi`
    * default construction; const iteration `begin()..end()` with `icl::first` / `icl::last` (by the users of
      `acked_intervals()`, by the harness).
  Nothing else: no `right_open` / `left_open` interval is ever built (`AckedRange::next`), no `size()`, no `find`.
  (`lo ≤ hi` at every call: `Canon.intervals_nonempty`.)

  **Semantics assumed** = `IclContract` below: iteration yields non-empty closed intervals in ascending order with at
  least one missing number between neighbours (icl joins touching intervals of a discrete domain), insertion is
  point-set union, erasure is point-set difference, `contains` is the subset test.

  **The assumption is complete**: `icl_unique` — any implementation satisfying the contract shows, after any sequence
  of insertions and erasures, exactly the interval list the Lean list model (`insertIvl` / `eraseIvl`) computes, and
  answers `contains` as `containsIvl` does.  `listModel` shows the contract is satisfiable (by the list model itself).
  The correspondence run (`icl` op stream of harness/c19_acktracker.cpp) compares the real `interval_set<uint32_t>` with
  the list model on random operation sequences; the spec oracle re-derives every reported list point-wise.
-/
namespace Tins.Ack

structure IclContract (S : Type) where
  empty : S
  insert : S → Nat → Nat → S
  erase : S → Nat → Nat → S
  contains : S → Nat → Nat → Bool
  /-- `begin()..end()` read through `icl::first` / `icl::last` -/
  iter : S → ISet
  iter_empty : iter empty = []
  iter_canon : ∀ s, Canon (iter s)
  insert_pts : ∀ s lo hi p, lo ≤ hi →
    (ISet.mem (iter (insert s lo hi)) p = true ↔ (ISet.mem (iter s) p = true ∨ (lo ≤ p ∧ p ≤ hi)))
  erase_pts : ∀ s lo hi p, lo ≤ hi →
    (ISet.mem (iter (erase s lo hi)) p = true ↔ (ISet.mem (iter s) p = true ∧ ¬ (lo ≤ p ∧ p ≤ hi)))
  contains_iff : ∀ s lo hi, lo ≤ hi →
    (contains s lo hi = true ↔ ∀ p, lo ≤ p → p ≤ hi → ISet.mem (iter s) p = true)

/-- the list model satisfies the contract (on canonical lists) -/
def listModel : IclContract { s : ISet // Canon s } where
  empty := ⟨[], trivial⟩
  insert s lo hi := if h : lo ≤ hi then ⟨insertIvl s.1 lo hi, (canon_insertIvl s.1 lo hi s.2 h).1⟩ else s
  erase s lo hi := ⟨eraseIvl s.1 lo hi, canon_eraseIvl s.1 lo hi s.2⟩
  contains s lo hi := containsIvl s.1 lo hi
  iter s := s.1
  iter_empty := rfl
  iter_canon s := s.2
  insert_pts s lo hi p h := by simp only [h, dite_true]; exact mem_insertIvl s.1 lo hi p
  erase_pts s lo hi p _ := mem_eraseIvl s.1 lo hi p
  contains_iff s lo hi h := containsIvl_iff s.1 lo hi h

/-- the mutating operations -/
inductive IclOp where
  | ins (lo hi : Nat)
  | del (lo hi : Nat)
deriving Repr

/-- as the tracker calls them: never with an empty interval -/
def IclOp.ok : IclOp → Prop
  | .ins lo hi => lo ≤ hi
  | .del lo hi => lo ≤ hi

def IclContract.apply {S : Type} (I : IclContract S) (s : S) : IclOp → S
  | .ins lo hi => I.insert s lo hi
  | .del lo hi => I.erase s lo hi

def applyList (s : ISet) : IclOp → ISet
  | .ins lo hi => insertIvl s lo hi
  | .del lo hi => eraseIvl s lo hi

theorem bool_eq_of_iff {a b : Bool} (h : a = true ↔ b = true) : a = b := by
  cases a <;> cases b <;> simp_all

theorem icl_unique_step {S : Type} (I : IclContract S) (s : S) (op : IclOp) (hok : op.ok) :
    I.iter (I.apply s op) = applyList (I.iter s) op := by
  cases op with
  | ins lo hi =>
    apply canon_ext _ _ (I.iter_canon _) (canon_insertIvl _ lo hi (I.iter_canon s) hok).1
    intro p
    exact bool_eq_of_iff ((I.insert_pts s lo hi p hok).trans (mem_insertIvl _ lo hi p).symm)
  | del lo hi =>
    apply canon_ext _ _ (I.iter_canon _) (canon_eraseIvl _ lo hi (I.iter_canon s))
    intro p
    exact bool_eq_of_iff ((I.erase_pts s lo hi p hok).trans (mem_eraseIvl _ lo hi p).symm)

/-- **the contract determines everything the tracker observes**: after any sequence of insertions and erasures of
    non-empty closed intervals, an implementation satisfying `IclContract` iterates over exactly the list the Lean model
    computes, and answers every `contains` query as the model does -/
theorem icl_unique {S : Type} (I : IclContract S) (ops : List IclOp) (hok : ∀ o ∈ ops, o.ok) :
    I.iter (ops.foldl I.apply I.empty) = ops.foldl applyList [] ∧
    ∀ lo hi, lo ≤ hi → I.contains (ops.foldl I.apply I.empty) lo hi = containsIvl (ops.foldl applyList []) lo hi := by
  have key : ∀ (ops : List IclOp) (s : S) (l : ISet), (∀ o ∈ ops, o.ok) → I.iter s = l →
      I.iter (ops.foldl I.apply s) = ops.foldl applyList l := by
    intro ops
    induction ops with
    | nil => intro s l _ h; exact h
    | cons o r ih =>
      intro s l hok h
      simp only [List.foldl_cons]
      apply ih _ _ (fun x hx => hok x (List.mem_cons_of_mem _ hx))
      rw [icl_unique_step I s o (hok o List.mem_cons_self), h]
  have h1 := key ops I.empty [] hok I.iter_empty
  refine ⟨h1, fun lo hi hl => ?_⟩
  apply bool_eq_of_iff
  rw [I.contains_iff _ lo hi hl, containsIvl_iff _ lo hi hl, h1]

/-- the model's list stays canonical under any operation sequence, and denotes the union / difference: the
    canonical-form lemmas in one statement (insertion keeps the list sorted, disjoint and non-touching and adds exactly
    the interval's points; erasure removes exactly them) -/
theorem list_model_canonical (s : ISet) (hc : Canon s) (lo hi : Nat) (h : lo ≤ hi) :
    Canon (insertIvl s lo hi) ∧ Canon (eraseIvl s lo hi) ∧
    (∀ p, ISet.mem (insertIvl s lo hi) p = true ↔ (ISet.mem s p = true ∨ (lo ≤ p ∧ p ≤ hi))) ∧
    (∀ p, ISet.mem (eraseIvl s lo hi) p = true ↔ (ISet.mem s p = true ∧ ¬ (lo ≤ p ∧ p ≤ hi))) :=
  ⟨(canon_insertIvl s lo hi hc h).1, canon_eraseIvl s lo hi hc, mem_insertIvl s lo hi, mem_eraseIvl s lo hi⟩

/-- a right-open insertion is the closed insertion of `[lo, hi - 1]` -/
theorem mem_insertRO (s : ISet) (lo hi p : Nat) :
    ISet.mem (insertRO s lo hi) p = true ↔ (ISet.mem s p = true ∨ (lo ≤ p ∧ p < hi)) := by
  unfold insertRO
  split
  · rw [mem_insertIvl]
    constructor <;> (rintro (h | h); exact .inl h; exact .inr (by omega))
  · constructor
    · exact .inl
    · rintro (h | h); exact h; omega

theorem canon_insertRO (s : ISet) (lo hi : Nat) (hc : Canon s) : Canon (insertRO s lo hi) := by
  unfold insertRO
  split
  · exact (canon_insertIvl s lo (hi - 1) hc (by omega)).1
  · exact hc

end Tins.Ack
