import TinsModel.Ack.Model
import TinsModel.Basic.Seq32Lemmas
/-
  Lemmas about the interval-set parameter (point-set semantics of insert / erase / contains) and about
  `AckedRange` (the wrap-aware range splitter): which intervals it yields and that two iterations suffice.
-/
namespace Tins.Ack

/-! ### interval set: point-set semantics -/

theorem mem_nil (p : Nat) : ISet.mem [] p = false := rfl

theorem mem_cons (j : Ivl) (s : ISet) (p : Nat) :
    ISet.mem (j :: s) p = (decide (j.lo ≤ p ∧ p ≤ j.hi) || ISet.mem s p) := by
  simp [ISet.mem]

theorem mem_append (s t : ISet) (p : Nat) : ISet.mem (s ++ t) p = (ISet.mem s p || ISet.mem t p) := by
  simp [ISet.mem]

/-- `insert` adds exactly the points of the interval -/
theorem mem_insertIvl (s : ISet) (lo hi p : Nat) :
    ISet.mem (insertIvl s lo hi) p = true ↔ (ISet.mem s p = true ∨ (lo ≤ p ∧ p ≤ hi)) := by
  induction s generalizing lo hi with
  | nil => simp [insertIvl, ISet.mem]
  | cons j r ih =>
    unfold insertIvl
    split
    · simp only [mem_cons, Bool.or_eq_true, decide_eq_true_eq, ih]
      generalize ISet.mem r p = m; cases m <;> simp <;> omega
    · split
      · simp only [mem_cons, Bool.or_eq_true, decide_eq_true_eq]
        generalize ISet.mem r p = m; cases m <;> simp <;> omega
      · simp only [mem_cons, Bool.or_eq_true, decide_eq_true_eq, ih]
        generalize ISet.mem r p = m; cases m <;> simp <;> omega

theorem mem_cutIvl (lo hi : Nat) (j : Ivl) (p : Nat) :
    ISet.mem (cutIvl lo hi j) p = true ↔ ((j.lo ≤ p ∧ p ≤ j.hi) ∧ ¬ (lo ≤ p ∧ p ≤ hi)) := by
  unfold cutIvl
  split <;> split <;> simp [ISet.mem] <;> omega

theorem mem_flatMap_cut (s : ISet) (lo hi p : Nat) :
    ISet.mem (s.flatMap (cutIvl lo hi)) p = true ↔ (ISet.mem s p = true ∧ ¬ (lo ≤ p ∧ p ≤ hi)) := by
  induction s with
  | nil => simp [ISet.mem]
  | cons j r ih =>
    simp only [List.flatMap_cons, mem_append, Bool.or_eq_true, mem_cutIvl, ih, mem_cons, decide_eq_true_eq]
    generalize ISet.mem r p = m; cases m <;> simp <;> omega

/-- `erase` removes exactly the points of the interval -/
theorem mem_eraseIvl (s : ISet) (lo hi p : Nat) :
    ISet.mem (eraseIvl s lo hi) p = true ↔ (ISet.mem s p = true ∧ ¬ (lo ≤ p ∧ p ≤ hi)) := by
  unfold eraseIvl
  split
  · constructor
    · intro h; exact ⟨h, by omega⟩
    · intro h; exact h.1
  · exact mem_flatMap_cut s lo hi p

/-- every interval is non-empty -/
def WF (s : ISet) : Prop := ∀ j ∈ s, j.lo ≤ j.hi

theorem wf_cutIvl (lo hi : Nat) (j : Ivl) (h : j.lo ≤ j.hi) : WF (cutIvl lo hi j) := by
  intro k hk
  unfold cutIvl at hk
  simp only [List.mem_append] at hk
  rcases hk with hk | hk
  · split at hk
    · simp only [List.mem_singleton] at hk; subst hk; simp only; omega
    · simp at hk
  · split at hk
    · simp only [List.mem_singleton] at hk; subst hk; simp only; omega
    · simp at hk

theorem wf_eraseIvl (s : ISet) (lo hi : Nat) (h : WF s) : WF (eraseIvl s lo hi) := by
  unfold eraseIvl
  split
  · exact h
  · intro k hk
    simp only [List.mem_flatMap] at hk
    obtain ⟨j, hj, hk⟩ := hk
    exact wf_cutIvl lo hi j (h j hj) k hk

theorem isEmpty_iff_no_points (s : ISet) (h : WF s) : s.isEmpty = true ↔ ∀ p, ISet.mem s p = false := by
  cases s with
  | nil => simp [ISet.mem]
  | cons j r =>
    simp only [List.isEmpty_cons, Bool.false_eq_true, false_iff]
    intro hall
    have := hall j.lo
    have hj := h j (List.mem_cons_self)
    simp [mem_cons] at this
    omega

theorem mem_foldl_erase (s rem : ISet) (p : Nat) :
    ISet.mem (s.foldl (fun rem j => eraseIvl rem j.lo j.hi) rem) p = true ↔
      (ISet.mem rem p = true ∧ ISet.mem s p = false) := by
  induction s generalizing rem with
  | nil => simp [ISet.mem]
  | cons j r ih =>
    simp only [List.foldl_cons, ih, mem_eraseIvl, mem_cons]
    generalize ISet.mem r p = m; generalize ISet.mem rem p = m'
    cases m <;> cases m' <;> simp

theorem wf_foldl_erase (s rem : ISet) (h : WF rem) :
    WF (s.foldl (fun rem j => eraseIvl rem j.lo j.hi) rem) := by
  induction s generalizing rem with
  | nil => exact h
  | cons j r ih => exact ih _ (wf_eraseIvl rem j.lo j.hi h)

/-- `contains(set, [lo,hi])` holds exactly when every point of `[lo,hi]` is in the set -/
theorem containsIvl_iff (s : ISet) (lo hi : Nat) (h : lo ≤ hi) :
    containsIvl s lo hi = true ↔ ∀ p, lo ≤ p → p ≤ hi → ISet.mem s p = true := by
  unfold containsIvl
  have wf0 : WF [⟨lo, hi⟩] := by intro j hj; simp only [List.mem_singleton] at hj; subst hj; exact h
  rw [isEmpty_iff_no_points _ (wf_foldl_erase s _ wf0)]
  constructor
  · intro hall p h1 h2
    have := hall p
    cases hm : ISet.mem s p with
    | true => rfl
    | false =>
      have h3 := (mem_foldl_erase s [⟨lo, hi⟩] p).2 ⟨by simp [ISet.mem]; omega, hm⟩
      rw [this] at h3; cases h3
  · intro hall p
    cases hm : ISet.mem (List.foldl (fun rem j => eraseIvl rem j.lo j.hi) [⟨lo, hi⟩] s) p with
    | false => rfl
    | true =>
      have ⟨h1, h2⟩ := (mem_foldl_erase s [⟨lo, hi⟩] p).1 hm
      simp [ISet.mem] at h1
      rw [hall p h1.1 h1.2] at h2; cases h2

/-! ### AckedRange -/

theorem hasNext_iff (x y : Nat) :
    (Range.mk x y).hasNext = true ↔ (x = y ∨ (x < y ∧ y - x < 2147483648) ∨ (y < x ∧ x - y > 2147483648)) := by
  unfold Range.hasNext seqCompare
  simp only [decide_eq_true_eq]
  split
  · omega
  · split <;> split <;> omega

/-- after the regular case of `next()` (`first_ = last_ + 1`, possibly wrapping to 0) nothing is left -/
theorem hasNext_succ (y : Nat) (hy : y < 4294967296) : (Range.mk (wrap32 (y + 1)) y).hasNext = false := by
  cases h : (Range.mk (wrap32 (y + 1)) y).hasNext with
  | false => rfl
  | true => rw [hasNext_iff] at h; unfold wrap32 at h; omega

/-- the intervals the loop `while (has_next()) next()` yields on `AckedRange(x, y)` with any fuel `≥ 2`,
    for any two 32-bit numbers -/
theorem drain_raw (n x y : Nat) (hx : x < 4294967296) (hy : y < 4294967296) :
    Range.drain (n + 2) (Range.mk x y) =
      if x ≤ y then (if y - x < 2147483648 then [⟨x, y⟩] else [])
      else (if x - y > 2147483648 then [⟨x, 4294967295⟩, ⟨0, y⟩] else []) := by
  by_cases hxy : x ≤ y
  · by_cases hd : y - x < 2147483648
    · have h1 : (Range.mk x y).hasNext = true := by rw [hasNext_iff]; omega
      simp only [Range.drain, h1, Range.next, hxy, if_true, hd, hasNext_succ y hy]
      simp
    · have h1 : (Range.mk x y).hasNext = false := by
        cases h : (Range.mk x y).hasNext with
        | false => rfl
        | true => rw [hasNext_iff] at h; omega
      simp [Range.drain, h1, hxy, hd]
  · by_cases hd : x - y > 2147483648
    · have h1 : (Range.mk x y).hasNext = true := by rw [hasNext_iff]; omega
      have h2 : (Range.mk 0 y).hasNext = true := by rw [hasNext_iff]; omega
      cases n with
      | zero =>
        simp only [Range.drain, h1, Range.next, hxy, if_false, hd, h2, Nat.zero_le, if_true]
      | succ m =>
        simp only [Range.drain, h1, Range.next, hxy, if_false, hd, h2, Nat.zero_le, if_true, hasNext_succ y hy]
        simp
    · have h1 : (Range.mk x y).hasNext = false := by
        cases h : (Range.mk x y).hasNext with
        | false => rfl
        | true => rw [hasNext_iff] at h; omega
      simp [Range.drain, h1, hxy, hd]

/-- two iterations of the loops over an `AckedRange` always suffice (the model's fuel 3 never cuts a loop short) -/
theorem drain_fuel (n x y : Nat) (hx : x < 4294967296) (hy : y < 4294967296) :
    Range.drain (n + 2) (Range.mk x y) = Range.drain 2 (Range.mk x y) := by
  rw [drain_raw n x y hx hy, drain_raw 0 x y hx hy]

theorem intervals_raw (x y : Nat) (hx : x < 4294967296) (hy : y < 4294967296) :
    (Range.mk x y).intervals =
      if x ≤ y then (if y - x < 2147483648 then [⟨x, y⟩] else [])
      else (if x - y > 2147483648 then [⟨x, 4294967295⟩, ⟨0, y⟩] else []) :=
  drain_raw 1 x y hx hy

/-- `AckedRange` over the images of absolute positions `a ≤ b` less than 2^31 apart: one interval when `a` and `b`
    lie in the same 2^32-block, otherwise the part up to 2^32-1 and the part from 0 -/
theorem intervals_abs (a b : Nat) (hab : a ≤ b) (hw : b < a + 2147483648) :
    (Range.mk (wrap32 a) (wrap32 b)).intervals =
      if a / 4294967296 = b / 4294967296 then [⟨wrap32 a, wrap32 b⟩]
      else [⟨wrap32 a, 4294967295⟩, ⟨0, wrap32 b⟩] := by
  rw [intervals_raw _ _ (wrap32_lt a) (wrap32_lt b)]
  unfold wrap32
  split <;> split <;> (try split) <;> first | rfl | omega

end Tins.Ack
