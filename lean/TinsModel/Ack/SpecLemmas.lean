import TinsModel.Ack.Spec
/-
  The executable forms used by the run-time oracle agree with the definitions of the specification; and a history
  emitted by a receiver that holds a growing set of positions is conforming.
-/
namespace Tins.Ack.Spec

/-- point-set of a list of half-open pieces -/
def inPieces (ps : List Blk) (p : Nat) : Bool := ps.any (fun q => decide (q.1 ≤ p ∧ p < q.2))

theorem inPieces_eq_sacked (ps : List Blk) (p : Nat) : inPieces ps p = sacked ps p := rfl

theorem inPieces_cutPieces (ps : List Blk) (l r p : Nat) :
    inPieces (cutPieces ps l r) p = true ↔ (inPieces ps p = true ∧ ¬ (l ≤ p ∧ p < r)) := by
  induction ps with
  | nil => simp [cutPieces, inPieces]
  | cons q rest ih =>
    have ih' : inPieces (List.flatMap (fun q =>
        (if q.1 < min q.2 l then [(q.1, min q.2 l)] else []) ++
        (if max q.1 r < q.2 then [(max q.1 r, q.2)] else [])) rest) p = true ↔
        (inPieces rest p = true ∧ ¬ (l ≤ p ∧ p < r)) := ih
    unfold cutPieces
    simp only [List.flatMap_cons, inPieces, List.any_append, List.any_cons, Bool.or_eq_true] at ih' ⊢
    rw [ih']
    generalize List.any rest (fun q => decide (q.1 ≤ p ∧ p < q.2)) = m
    split <;> split <;> cases m <;> simp <;> omega

theorem inPieces_uncovered (ps bs : List Blk) (p : Nat) :
    inPieces (uncovered ps bs) p = true ↔ (inPieces ps p = true ∧ sacked bs p = false) := by
  induction bs generalizing ps with
  | nil => simp [uncovered, sacked]
  | cons b rest ih =>
    simp only [uncovered, ih, inPieces_cutPieces, sacked, List.any_cons, Bool.or_eq_false_iff, decide_eq_false_iff_not]
    generalize List.any rest (fun b => decide (b.1 ≤ p ∧ p < b.2)) = m
    cases m <;> simp

theorem allEmpty_iff (ps : List Blk) : allEmpty ps = true ↔ ∀ p, inPieces ps p = false := by
  induction ps with
  | nil => simp [allEmpty, inPieces]
  | cons q rest ih =>
    simp only [allEmpty, List.all_cons, Bool.and_eq_true, decide_eq_true_eq, inPieces, List.any_cons,
      Bool.or_eq_false_iff, decide_eq_false_iff_not] at ih ⊢
    rw [ih]
    constructor
    · rintro ⟨h1, h2⟩ p; exact ⟨by omega, h2 p⟩
    · intro h; exact ⟨by have := (h q.1).1; omega, fun p => (h p).2⟩

/-- the oracle's interval computation is the byte-level definition of "segment acknowledged" -/
theorem segAckedFast_iff (A : Nat) (seen : List Blk) (s n : Nat) :
    segAckedFast A seen s n = true ↔ SegAcked A seen s n := by
  unfold segAckedFast SegAcked ackedByte
  rw [allEmpty_iff]
  constructor
  · intro h p h1 h2
    have hp := h p
    rw [Bool.eq_false_iff] at hp
    rw [Ne, inPieces_uncovered] at hp
    by_cases hA : p < A
    · exact Or.inl hA
    · right
      cases hs : sacked seen p with
      | true => rfl
      | false =>
        exfalso; apply hp
        refine ⟨by simp [inPieces]; omega, ?_⟩
        simp only [sacked, List.any_cons, Bool.or_eq_false_iff, decide_eq_false_iff_not]
        exact ⟨by omega, hs⟩
  · intro h p
    rw [Bool.eq_false_iff, Ne, inPieces_uncovered]
    rintro ⟨h1, h2⟩
    simp only [inPieces, List.any_cons, List.any_nil, Bool.or_false, decide_eq_true_eq] at h1
    simp only [sacked, List.any_cons, Bool.or_eq_false_iff, decide_eq_false_iff_not] at h2
    rcases h p h1.1 h1.2 with h' | h'
    · omega
    · have := h2.2; simp only [sacked] at h'; rw [h'] at this; cases this

/-! ### where conforming histories come from -/

/-- A receiver that holds the set `R` of positions acknowledges cumulatively up to `A`: everything from the start
    of the stream `a0` up to `A` is held and `A` itself is not. -/
def IsCumAck (a0 : Nat) (R : Nat → Prop) (A : Nat) : Prop := a0 ≤ A ∧ (∀ p, a0 ≤ p → p < A → R p) ∧ ¬ R A

/-- the cumulative ACK of a receiver whose set of held positions only grows never moves backwards … -/
theorem cumAck_mono (a0 : Nat) (R R' : Nat → Prop) (A A' : Nat) (hsub : ∀ p, R p → R' p)
    (h : IsCumAck a0 R A) (h' : IsCumAck a0 R' A') : A ≤ A' := by
  apply Nat.le_of_not_lt
  intro hlt
  exact h'.2.2 (hsub A' (h.2.1 A' h'.1 hlt))

/-- … and never lies inside a block of positions the receiver reported as held earlier (the last clause of `pktOK`) -/
theorem later_ack_not_in_block (a0 : Nat) (R R' : Nat → Prop) (A' : Nat) (hsub : ∀ p, R p → R' p)
    (h' : IsCumAck a0 R' A') (seen : List Blk) (hseen : ∀ p, sacked seen p = true → R p) :
    sacked seen A' = false := by
  cases hs : sacked seen A' with
  | false => rfl
  | true => exact absurd (hsub A' (hseen A' hs)) h'.2.2

end Tins.Ack.Spec
