import TinsModel.Wire.App.Theorems
open Tins.Wire.App
-- C01
#print axioms arp_parse_safe
#print axioms vxlan_parse_safe
#print axioms vxlan_parse_consumes
#print axioms stp_parse_safe
#print axioms bootp_parse_safe
#print axioms rtp_parse_safe
#print axioms dhcp_parseOpts_safe
#print axioms dhcp_parse_safe
#print axioms dhcpv6_parseOpts_safe
#print axioms dhcpv6_parse_safe
-- C02
#print axioms arp_writesOnly
#print axioms vxlan_writesOnly
#print axioms stp_writesOnly
#print axioms bootp_writesOnly
#print axioms rtp_headerBytes_length
#print axioms rtp_writesOnlyExact
#print axioms rtp_writesOnly_nopad
#print axioms serializeInto_ok_exact
#print axioms dhcp_optsBytes_length
#print axioms dhcp_writesOnly
#print axioms dhcpv6_optsBytes_length
#print axioms dhcpv6_writesOnly
-- invariants
#print axioms arp_parse_inv
#print axioms vxlan_parse_inv
#print axioms stp_parse_inv
#print axioms bootp_parse_inv
#print axioms rtp_parse_inv
#print axioms dhcp_parse_inv
#print axioms dhcp_addOption_inv
#print axioms dhcp_removeOption_inv
-- C03
#print axioms arp_reparse
#print axioms arp_write_reparse
#print axioms vxlan_reparse
#print axioms stp_reparse
#print axioms bootp_reparse
-- C04
#print axioms findOpt_append
#print axioms findOpt_erase_other
#print axioms classData_encClassData
#print axioms decUserClass_enc
#print axioms decVendorClass_enc
#print axioms decU8_enc
#print axioms decU16_enc
#print axioms decIp6_enc
#print axioms decStatus_enc
#print axioms decDuid_enc
#print axioms decVendorInfo_enc
#print axioms decIaTa_enc
#print axioms dhcp_type_roundtrip
#print axioms dhcp_u32_roundtrip
#print axioms dhcp_ip_roundtrip
#print axioms dhcp_str_roundtrip
#print axioms dhcp_first_match_wins
-- C03 (TLV)
#print axioms dhcpv6_parseOpts_optsBytes
#print axioms dhcpv6_parseOpts_canon
#print axioms dhcpv6_reparse_plain
#print axioms dhcpv6_write_reparse_plain
#print axioms dhcp_parseOpts_optsBytes
#print axioms dhcp_parseOpts_canon
#print axioms dhcp_reparse
#print axioms dhcp_write_reparse
#print axioms dhcpv6_parseOpts_wireSum
#print axioms dhcpv6_addOption_inv
#print axioms dhcpv6_removeOption_inv
-- API histories
#print axioms arp_apply_inv
#print axioms arp_history_inv
#print axioms arp_create_inv
#print axioms arp_opcode_set_get
#print axioms arp_sender_ip_set_get
#print axioms stp_apply_inv
#print axioms vxlan_apply_inv
#print axioms bootp_setHeader_length
-- C03 (RTP)
#print axioms readWords_wordsBytes
#print axioms rtp_reparse
#print axioms beNat_lt
#print axioms rtp_parse_canon
#print axioms rtp_apply_inv
#print axioms rtp_create_inv
#print axioms rtp_history_inv
-- known finding KF-WApp-6 (DHCP option payload > 255 bytes)
#print axioms dhcp_tlv_roundtrip_all_fails
#print axioms dhcp_tlv_roundtrip_partial
#print axioms dhcp_apply_inv
#print axioms dhcpv6_apply_inv
#print axioms bootp_apply_inv
#print axioms dhcpv6_reparse_relay
-- the generic `WritesOnly` is too strong for a trailer behind the payload: refuted on a witness (see TheoremsRtpApi)
#print axioms rtp_writesOnly_all_fails
