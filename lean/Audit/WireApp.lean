import TinsModel.Wire.App.Theorems
