import TinsModel.Props.Limits.C12
#print axioms Tins.Props.Limits.C12.limits_found_C12
#print axioms Tins.Props.Limits.C12.limits_agree_optionSmallBuffer
