import TinsModel.Wire.Transport.Theorems
#print axioms Tins.Wire.Transport.udp_parse_safe
#print axioms Tins.Wire.Transport.udp_writesOnly
