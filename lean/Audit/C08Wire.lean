import TinsModel.Props.C08Wire
#print axioms Tins.Props.C08.upper_parser_safe
#print axioms Tins.Props.C08.ip_constructor_uses_pdu_from_flag
#print axioms Tins.Props.C08.reassembly_end_to_end
#print axioms Tins.Props.C08.fragment_on_wire
