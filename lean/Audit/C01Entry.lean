import TinsModel.Wire.Coverage
/- printed for checks/C01.py: one line per construct-from-buffer form of the current headers with its disposition
   (`ENTRY <key without spaces> <modelled|harnessOnly|notAParser|NONE> <auto|glue> <key> <text>`, tab separated), then the
   rows of the hand-maintained table that name no entry point any more. -/
open Tins.Wire.Coverage in
#eval show IO Unit from do
  for l in report do IO.println l
  for k in stale do IO.println ("STALE\t" ++ k)
