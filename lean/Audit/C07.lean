import TinsModel.Props.C07
#print axioms Tins.Props.C07.ident_iff
#print axioms Tins.Props.C07.ident_injective_within_family
#print axioms Tins.Props.C07.ident_injective_fails
#print axioms Tins.Props.C07.ident_injective_partial
#print axioms Tins.Props.C07.memory_bound
#print axioms Tins.Props.C07.trace_refines_reference_fails
#print axioms Tins.Props.C07.trace_refines_reference_partial
#print axioms Tins.Props.C07.collisionFree_of_no_twins
#print axioms Tins.Props.C07.reachable_unique
#print axioms Tins.Props.C07.announce_iff
#print axioms Tins.Props.C07.announce_once
#print axioms Tins.Props.C07.forget_iff
#print axioms Tins.Props.C07.forget_reason
#print axioms Tins.Props.C07.finished_iff_flags
#print axioms Tins.Props.C07.fin_sent_iff
#print axioms Tins.Props.C07.route_correct
#print axioms Tins.Props.C07.route_cross_family_dropped
