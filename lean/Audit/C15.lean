import TinsModel.Props.C15
