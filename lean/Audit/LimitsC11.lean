import TinsModel.Props.Limits.C11
#print axioms Tins.Props.Limits.C11.limits_found_C11
#print axioms Tins.Props.Limits.C11.limits_agree_hdrRadioTap
