import TinsModel.Props.C01
#print axioms Tins.Props.C01.cursor_safe
#print axioms Tins.Props.C01.chain_parse_safe
#print axioms Tins.Props.C01.parse_any_safe
#print axioms Tins.Props.C01.parsed_layers_good
#print axioms Tins.Props.C01.entry_scan_complete
#print axioms Tins.Props.C01.entry_points_covered
#print axioms Tins.Props.C01.wire_modelled_safe
#print axioms Tins.Props.C01.raw_scan_complete
#print axioms Tins.Props.C01.raw_sites_covered
#print axioms Tins.Props.C01.raw_guards_present
