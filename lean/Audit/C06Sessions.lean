import TinsModel.Props.C06Sessions
#print axioms Tins.Props.C06.session_key_is_the_four_tuple
#print axioms Tins.Props.C06.follower_invariant
#print axioms Tins.Props.C06.follower_projects
#print axioms Tins.Props.C06.follower_projects_from
#print axioms Tins.Props.C06.session_created_iff
#print axioms Tins.Props.C06.handshake
#print axioms Tins.Props.C06.session_established_step
#print axioms Tins.Props.C06.session_payloads_are_prefixes
#print axioms Tins.Props.C06.session_directions_refine_spec
#print axioms Tins.Props.C06.functors_fire_iff
#print axioms Tins.Props.C06.session_established_run
#print axioms Tins.Props.C06.session_closed_stays
#print axioms Tins.Props.C06.end_functor_iff_erased
#print axioms Tins.Props.C06.stream_ids_distinct
#print axioms Tins.Props.C06.follower_interleaving
