import TinsModel.Props.Limits.C16
#print axioms Tins.Props.Limits.C16.limits_found_C16
#print axioms Tins.Props.Limits.C16.limits_agree_ipv4AddressSize
#print axioms Tins.Props.Limits.C16.limits_agree_bufAddressSizes
#print axioms Tins.Props.Limits.C16.limits_agree_ipv6ToStringBufferSize
