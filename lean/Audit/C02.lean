import TinsModel.Props.C02
#print axioms Tins.Props.C02.serialize_total_and_size_exact
#print axioms Tins.Props.C02.layers_never_overwrite
#print axioms Tins.Props.C02.serialize_total_and_size_exact_at
#print axioms Tins.Props.C02.layers_never_overwrite_at
#print axioms Tins.Props.C02.parsed_packet_serializes
#print axioms Tins.Props.C02.parsed_packet_layers_never_overwrite
#print axioms Tins.Props.C02.built_packet_serializes
#print axioms Tins.Props.C02.built_packet_layers_never_overwrite
