import TinsModel.Wire.Wifi.Theorems
