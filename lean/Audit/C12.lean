import TinsModel.Props.C12
#print axioms Tins.Props.C12.placeholder
