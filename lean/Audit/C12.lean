import TinsModel.Props.C12
#print axioms Tins.Props.C12.model_refines_spec
#print axioms Tins.Props.C12.guards_agree
#print axioms Tins.Props.C12.forest_inv
#print axioms Tins.Props.C12.exactly_one_owner
#print axioms Tins.Props.C12.exactly_one_owner_reachable
#print axioms Tins.Props.C12.destroy_all_frees_each_once
#print axioms Tins.Props.C12.clone_deep_equal
#print axioms Tins.Props.C12.copy_assign_equal
#print axioms Tins.Props.C12.copy_independent
#print axioms Tins.Props.C12.handles_disjoint
#print axioms Tins.Props.C12.pinned_copy_assign_keeps_old_inner
#print axioms Tins.Props.C12.fixed_copy_assign_drops_old_inner
#print axioms Tins.Props.C12.copyAssignAlwaysSafe_fails
#print axioms Tins.Props.C12.copy_assign_safe_partial
#print axioms Tins.Props.C12.move_transfers
