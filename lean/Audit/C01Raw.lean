import Lean.Elab.Command
import TinsModel.Props.C01
import TinsModel.Props.C10
/- printed for checks/C01.py: one line per raw site of the current tree with its disposition
   (`RAWSITE <modelled|argued|unmodelled|NONE> <function> <kind> <expression> <site string of the model> <text>`, tab separated),
   the counts, the rows of the hand-maintained table that name no site any more, and — checked here, in the environment that
   holds every family — whether each model / theorem a `modelled` row names exists (`BADNAME` otherwise). -/
open Tins.Wire.RawCoverage Lean Elab Command in
#eval show CommandElabM Unit from do
  let env ← getEnv
  for l in report do IO.println l
  for k in stale do IO.println ("STALE\t" ++ k)
  IO.println s!"COUNTS\t{Tins.Gen.RawSites.all.length}\t{count "modelled"}\t{count "argued"}\t{count "unmodelled"}\t{Tins.Gen.RawSites.guards.length}\t{citedGuards.length}"
  -- the first word of `model` and of `thm` is a Lean name
  let firstName (s : String) : Name := ((s.splitOn " ").headD "").toName
  for r in table do
    match r.2 with
    | .modelled m _ t _ =>
      for s in [m, t] do
        let n := firstName s
        if !(env.contains n) then IO.println s!"BADNAME\t{n}\t{r.1.s}"
    | _ => pure ()
  -- the same check for the entry-point table (Wire/Coverage.lean)
  for r in Tins.Wire.Coverage.table do
    match r.2 with
    | .modelled m t _ =>
      for s in [m, t] do
        let n := firstName s
        if !(env.contains n) then IO.println s!"BADNAME\t{n}\tentry point {r.1.s}"
    | _ => pure ()
