import TinsModel.Props.C11
#print axioms Tins.Props.C11.meta_matches_standard
#print axioms Tins.Props.C11.gen_meta_eq_std
#print axioms Tins.Props.C11.gen_meta_wf
#print axioms Tins.Props.C11.accessors_paired
#print axioms Tins.Props.C11.write_canonical
#print axioms Tins.Props.C11.default_is_canonical
#print axioms Tins.Props.C11.setters_any_order
#print axioms Tins.Props.C11.setters_any_order_from
#print axioms Tins.Props.C11.getter_last_write
#print axioms Tins.Props.C11.present_is_domain
#print axioms Tins.Props.C11.trailer_size_spec
#print axioms Tins.Props.C11.history_observations
#print axioms Tins.Props.C11.serialize_reparse
#print axioms Tins.Props.C11.setters_any_order_parsed
#print axioms Tins.Props.C11.default_sized
#print axioms Tins.Props.C11.typed_getter_last_write
#print axioms Tins.Props.C11.getter_widths
