import TinsModel.Props.C11
#print axioms Tins.Props.C11.meta_matches_standard
#print axioms Tins.Props.C11.gen_meta_wf
