import TinsModel.Props.C18
#print axioms Tins.Props.C18.interleaving_independent
#print axioms Tins.Props.C18.interleaving_independent_on_path
#print axioms Tins.Props.C18.race_free
#print axioms Tins.Props.C18.schedule_irrelevant
#print axioms Tins.Props.C18.concurrent_eq_sequential
#print axioms Tins.Props.C18.shared_scratch_breaks_independence
#print axioms Tins.Props.C18.scan_complete
#print axioms Tins.Props.C18.no_shared_mutable
#print axioms Tins.Props.C18.hook_statics_synchronised
#print axioms Tins.Props.C18.extern_calls_mt_safe
#print axioms Tins.Props.C18.libtins_footprints_disjoint
#print axioms Tins.Props.C18.libtins_threads_independent
#print axioms Tins.Props.C18.crc_table_is_ieee
#print axioms Tins.Props.C18.crc32_reads_table_correctly
