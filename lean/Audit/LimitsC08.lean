import TinsModel.Props.Limits.C08
#print axioms Tins.Props.Limits.C08.limits_found_C08
#print axioms Tins.Props.Limits.C08.limits_agree_fragOffsetUnit
#print axioms Tins.Props.Limits.C08.limits_agree_ipFlags
#print axioms Tins.Props.Limits.C08.limits_agree_defaultTtl
#print axioms Tins.Props.Limits.C08.limits_agree_reasmMaxDatagram
