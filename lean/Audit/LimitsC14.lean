import TinsModel.Props.Limits.C14
#print axioms Tins.Props.Limits.C14.limits_found_C14
#print axioms Tins.Props.Limits.C14.limits_agree_headerGuards
#print axioms Tins.Props.Limits.C14.limits_agree_headerGuards2
#print axioms Tins.Props.Limits.C14.limits_agree_ipv6MatchExtUnit
