import TinsModel.Props.C09
#print axioms Tins.Props.C09.crc32_is_ieee
#print axioms Tins.Props.C09.rc4_is_textbook
#print axioms Tins.Props.C09.rc4_involutive
#print axioms Tins.Props.C09.wep_refines_spec
#print axioms Tins.Props.C09.wep_spec_roundtrip
#print axioms Tins.Props.C09.wep_roundtrip
#print axioms Tins.Props.C09.wep_reject
#print axioms Tins.Props.C09.wep_no_key
#print axioms Tins.Props.C09.wep_decrypt_noFault
