import TinsModel.Props.C09
#print axioms Tins.Props.C09.rc4_involutive
