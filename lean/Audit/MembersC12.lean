import TinsModel.Props.Members.C12
#print axioms Tins.Props.Members.C12.members_scan_complete
#print axioms Tins.Props.Members.C12.only_known_pointer_members
#print axioms Tins.Props.Members.C12.allow_list_not_stale
#print axioms Tins.Props.Members.C12.every_concrete_class_overrides_clone
#print axioms Tins.Props.Members.C12.no_class_slices
#print axioms Tins.Props.Members.C12.rule_of_three_consistent
