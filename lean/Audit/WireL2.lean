import TinsModel.Wire.L2.Theorems
