import TinsModel.Wire.Ip6.Theorems
