import TinsModel.Props.C04
#print axioms Tins.Props.C04.be_field_truncates
#print axioms Tins.Props.C04.l2_built_packet_reparse
#print axioms Tins.Props.C04.built_packet_reparse
#print axioms Tins.Props.C04.built_packet_reparse_entry
#print axioms Tins.Props.C04.built_packet_reparse_net
#print axioms Tins.Props.C04.built_packet_serializes_all
#print axioms Tins.Props.C04.icmp6_typed_codecs
#print axioms Tins.Props.C04.icmp6_dns_search_list_codec
