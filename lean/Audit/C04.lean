import TinsModel.Props.C04
#print axioms Tins.Props.C04.be_field_truncates
