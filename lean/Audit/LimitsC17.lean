import TinsModel.Props.Limits.C17
#print axioms Tins.Props.Limits.C17.limits_found_C17
#print axioms Tins.Props.Limits.C17.limits_agree_microsecondsInSecond
#print axioms Tins.Props.Limits.C17.limits_agree_isDot3
#print axioms Tins.Props.Limits.C17.limits_agree_snifferSnapLen
