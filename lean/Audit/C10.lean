import TinsModel.Props.C10
#print axioms Tins.Props.C10.reachable_inv
#print axioms Tins.Props.C10.getters_noFault_fails
#print axioms Tins.Props.C10.getters_noFault_partial
#print axioms Tins.Props.C10.edit_noFault_fails
#print axioms Tins.Props.C10.edit_noFault_partial
#print axioms Tins.Props.C10.parse_noFault
#print axioms Tins.Props.C10.applyEdit_refines
#print axioms Tins.Props.C10.runEdits_refines
#print axioms Tins.Props.C10.observe_mkMsg
#print axioms Tins.Props.C10.sections_refine_fresh
#print axioms Tins.Props.C10.sections_refine_parsed
#print axioms Tins.Props.C10.reparse_sections
#print axioms Tins.Props.C10.name_roundtrip
#print axioms Tins.Props.C10.loops_rejected
#print axioms Tins.Props.C10.self_pointer_rejected
#print axioms Tins.Props.C10.compose_sound
