import TinsModel.Props.C10
#print axioms Tins.Props.C10.fresh_sections
