import TinsModel.Props.Limits.C05
#print axioms Tins.Props.Limits.C05.limits_found_C05
#print axioms Tins.Props.Limits.C05.limits_agree_headerSizes
#print axioms Tins.Props.Limits.C05.limits_agree_minFrames
#print axioms Tins.Props.Limits.C05.limits_agree_ethMinFrame_property
#print axioms Tins.Props.Limits.C05.limits_agree_icmpMinPayload
#print axioms Tins.Props.Limits.C05.limits_agree_icmpLengthOctet
#print axioms Tins.Props.Limits.C05.limits_agree_headerLengthMax
#print axioms Tins.Props.Limits.C05.limits_agree_ipv6ExtUnit
#print axioms Tins.Props.Limits.C05.limits_agree_checksumSites
#print axioms Tins.Props.Limits.C05.limits_agree_udpChecksumSite
#print axioms Tins.Props.Limits.C05.limits_agree_l2Numbers
