import TinsModel.Props.C06
#print axioms Tins.Props.C06.seq_compare_is_absolute_order
