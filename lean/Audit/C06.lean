import TinsModel.Props.C06
#print axioms Tins.Props.C06.seq_compare_is_absolute_order
#print axioms Tins.Props.C06.tracker_refines_spec_wide
#print axioms Tins.Props.C06.tracker_refines_spec
#print axioms Tins.Props.C06.tracker_refines_spec_every_moment
#print axioms Tins.Props.C06.tracker_refines_spec_fwd
#print axioms Tins.Props.C06.tracker_refines_spec_static
#print axioms Tins.Props.C06.half_window_needed
#print axioms Tins.Props.C06.buffered_bytes_exact
#print axioms Tins.Props.C06.delivered_is_prefix
#print axioms Tins.Props.C06.each_byte_once
#print axioms Tins.Props.C06.complete_prefix_delivered
#print axioms Tins.Props.C06.process_payload_true_iff_grew
#print axioms Tins.Props.C06.flow_callbacks
#print axioms Tins.Props.C06.legacy_refines_spec
#print axioms Tins.Props.C06.legacy_delivers_prefix
#print axioms Tins.Props.C06.legacy_equiv
#print axioms Tins.Props.C06.legacy_update_true_iff_grew
