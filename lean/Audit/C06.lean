import TinsModel.Props.C06
#print axioms Tins.Props.C06.seq_compare_is_absolute_order
#print axioms Tins.Props.C06.tracker_refines_spec_wide
#print axioms Tins.Props.C06.tracker_refines_spec
#print axioms Tins.Props.C06.tracker_refines_spec_every_moment
