import TinsModel.Props.C14
#print axioms Tins.Props.C14.matcher_noFault
#print axioms Tins.Props.C14.walkExt_fuel_irrelevant
#print axioms Tins.Props.C14.model_refines_spec
#print axioms Tins.Props.C14.mirror_accepted
#print axioms Tins.Props.C14.stranger_rejected
#print axioms Tins.Props.C14.mirror_is_not_a_stranger
