import TinsModel.Props.C14
#print axioms Tins.Props.C14.matcher_noFault
#print axioms Tins.Props.C14.walkExt_fuel_irrelevant
#print axioms Tins.Props.C14.skipExts_fuel_irrelevant
#print axioms Tins.Props.C14.model_refines_spec
#print axioms Tins.Props.C14.mirrored_reply_accepted
#print axioms Tins.Props.C14.unreachable_quoting_accepted
#print axioms Tins.Props.C14.mirror_and_stranger_exclusive
#print axioms Tins.Props.C14.mirror_accepted
#print axioms Tins.Props.C14.stranger_rejected
#print axioms Tins.Props.C14.mirror_is_not_a_stranger
#print axioms Tins.Props.C14.pducacher_forwards
#print axioms Tins.Props.C14.rawpdu_and_default
#print axioms Tins.Props.C14.bootp_matches_iff
#print axioms Tins.Props.C14.arp_matches_iff
#print axioms Tins.Props.C14.dhcpv6_matches_iff
#print axioms Tins.Props.C14.loopback_matches_iff
