import TinsModel.Props.C14
#print axioms Tins.Props.C14.raw_always_matches
