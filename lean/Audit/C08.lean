import TinsModel.Props.C08
