import TinsModel.Props.C08
#print axioms Tins.Props.C08.frag_invariant
#print axioms Tins.Props.C08.complete_iff_all
#print axioms Tins.Props.C08.reassembled_payload
#print axioms Tins.Props.C08.model_refines_reference
#print axioms Tins.Props.C08.status_iff_completes
#print axioms Tins.Props.C08.never_from_incomplete
#print axioms Tins.Props.C08.reassembled_is_original
#print axioms Tins.Props.C08.untouched_unless_reassembled
#print axioms Tins.Props.C08.not_fragment_untouched
#print axioms Tins.Props.C08.interleave_independent
#print axioms Tins.Props.C08.no_datagram_from_holes
#print axioms Tins.Props.C08.key_reuse_refines_fails
#print axioms Tins.Props.C08.key_reuse_refines_partial
