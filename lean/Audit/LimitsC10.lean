import TinsModel.Props.Limits.C10
#print axioms Tins.Props.Limits.C10.limits_found_C10
#print axioms Tins.Props.Limits.C10.limits_agree_dnsPointerJumpCap
#print axioms Tins.Props.Limits.C10.limits_agree_dnsPointerChain
#print axioms Tins.Props.Limits.C10.limits_agree_dnsNameCap
#print axioms Tins.Props.Limits.C10.limits_agree_dnsNameBuf
#print axioms Tins.Props.Limits.C10.limits_agree_dnsCapFitsBuf
#print axioms Tins.Props.Limits.C10.limits_agree_dnsDecodeCap
#print axioms Tins.Props.Limits.C10.limits_agree_dnsPointerLow
#print axioms Tins.Props.Limits.C10.limits_agree_dnsPointerMax
#print axioms Tins.Props.Limits.C10.limits_agree_dnsTypes
