import TinsModel.Props.Limits.C06
#print axioms Tins.Props.Limits.C06.limits_found_C06
#print axioms Tins.Props.Limits.C06.limits_agree_seqNumberDiff
#print axioms Tins.Props.Limits.C06.limits_agree_seqSpace
