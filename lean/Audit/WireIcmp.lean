import TinsModel.Wire.Icmp.Theorems
