import TinsModel.Props.C05
#print axioms Tins.Props.C05.sum_range_spec
#print axioms Tins.Props.C05.do_checksum_spec
#print axioms Tins.Props.C05.ip_checksum_verifies
#print axioms Tins.Props.C05.tcp_checksum_verifies_ip4
#print axioms Tins.Props.C05.tcp_checksum_verifies_ip6
#print axioms Tins.Props.C05.udp_checksum_verifies_ip4
#print axioms Tins.Props.C05.udp_checksum_verifies_ip6
#print axioms Tins.Props.C05.udp_zero
#print axioms Tins.Props.C05.icmp_checksum_verifies
#print axioms Tins.Props.C05.icmp_extension_checksum_verifies
#print axioms Tins.Props.C05.icmpv6_checksum_verifies
#print axioms Tins.Props.C05.crc32_table_spec
