import TinsModel.Props.C06Hyp
#print axioms Tins.Props.C06.isn_is_uint32
#print axioms Tins.Props.C06.half_window_needed_nonempty
#print axioms Tins.Props.C06.agrees_gives_inside
#print axioms Tins.Props.C06.segment_inside_needed
#print axioms Tins.Props.C06.segment_agrees_needed
#print axioms Tins.Props.C06.erase_in_bounds
#print axioms Tins.Props.C06.process_payload_slice_exact
#print axioms Tins.Props.C06.oversize_segment_dropped
#print axioms Tins.Props.C06.stream_bound_needed
#print axioms Tins.Props.C06.byte_counter_exact_iff_small
