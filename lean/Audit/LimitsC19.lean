import TinsModel.Props.Limits.C19
#print axioms Tins.Props.Limits.C19.limits_found_C19
#print axioms Tins.Props.Limits.C19.limits_agree_seqNumberDiff
#print axioms Tins.Props.Limits.C19.limits_agree_specHalf
#print axioms Tins.Props.Limits.C19.limits_agree_uint32Max
