import TinsModel.Props.C03
#print axioms Tins.Props.C03.be_field_roundtrip
#print axioms Tins.Props.C03.le_field_roundtrip
#print axioms Tins.Props.C03.l2_whole_packet_c03
#print axioms Tins.Props.C03.whole_packet_c03
#print axioms Tins.Props.C03.whole_packet_c03_net
#print axioms Tins.Props.C03.whole_packet_c03_fixpoint
#print axioms Tins.Props.C03.whole_packet_c03_full
#print axioms Tins.Props.C03.built_packet_c03_fixpoint
#print axioms Tins.Props.C03.c03_fixpoint_all_stacks_fails
#print axioms Tins.Props.C03.parsed_packet_representable
#print axioms Tins.Props.C03.whole_packet_pad_le
