import TinsModel.Props.C03
#print axioms Tins.Props.C03.be_field_roundtrip
#print axioms Tins.Props.C03.le_field_roundtrip
#print axioms Tins.Props.C03.l2_whole_packet_c03
