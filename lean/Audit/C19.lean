import TinsModel.Props.C19
#print axioms Tins.Props.C19.ack_refines
#print axioms Tins.Props.C19.segment_acked_iff
#print axioms Tins.Props.C19.invariant_step
#print axioms Tins.Props.C19.sack_low_branch_unreachable
#print axioms Tins.Props.C19.acked_range_two_iterations
#print axioms Tins.Props.C19.acked_range_points
#print axioms Tins.Props.C19.interval_set_semantics
#print axioms Tins.Props.C19.oracle_is_definition
#print axioms Tins.Props.C19.receiver_histories_conform
#print axioms Tins.Props.C19.intervals_are_the_maximal_runs
#print axioms Tins.Props.C19.intervals_always_canonical
#print axioms Tins.Props.C19.canonical_preserved_by_any_packet
#print axioms Tins.Props.C19.ack_only_without_sack
#print axioms Tins.Props.C19.sack_option_roundtrip
#print axioms Tins.Props.C19.segmentAckedAnyLength_fails
