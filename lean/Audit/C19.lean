import TinsModel.Props.C19
#print axioms Tins.Props.C19.placeholder
