import TinsModel.Props.C16
