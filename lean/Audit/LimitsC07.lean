import TinsModel.Props.Limits.C07
#print axioms Tins.Props.Limits.C07.limits_found_C07
#print axioms Tins.Props.Limits.C07.limits_agree_followerMaxChunks
#print axioms Tins.Props.Limits.C07.limits_agree_followerMaxBytes
#print axioms Tins.Props.Limits.C07.limits_agree_followerKeepAlive
#print axioms Tins.Props.Limits.C07.limits_agree_followerConsts
#print axioms Tins.Props.Limits.C07.limits_agree_followerMaxSacked
#print axioms Tins.Props.Limits.C07.limits_agree_oracleDefault
#print axioms Tins.Props.Limits.C07.limits_agree_seqNumberDiff
#print axioms Tins.Props.Limits.C07.limits_agree_tcpFlags
#print axioms Tins.Props.Limits.C07.limits_agree_identPad
