import TinsModel.Wire.Ip.Theorems
