import TinsModel.Props.C17
#print axioms Tins.Props.C17.supported_linktypes_dispatch
