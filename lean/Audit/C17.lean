import TinsModel.Props.C17
#print axioms Tins.Props.C17.supported_linktypes_dispatch
#print axioms Tins.Props.C17.writer_linktypes_readable
#print axioms Tins.Props.C17.writer_linktypes_header
#print axioms Tins.Props.C17.writer_snaplen_is_max
#print axioms Tins.Props.C17.handlers_swallow_malformed
#print axioms Tins.Props.C17.ts_roundtrip
#print axioms Tins.Props.C17.ts_total_preserved
#print axioms Tins.Props.C17.ts_file_roundtrip
#print axioms Tins.Props.C17.loop_filtermap
#print axioms Tins.Props.C17.loop_until_escape
#print axioms Tins.Props.C17.loop_no_fault
#print axioms Tins.Props.C17.handler_never_faults
#print axioms Tins.Props.C17.loop_no_escape
#print axioms Tins.Props.C17.sniff_loop_prefix
#print axioms Tins.Props.C17.writer_reader_roundtrip
#print axioms Tins.Props.C17.capture_roundtrip
