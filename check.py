#!/usr/bin/env python3
"""check.py <property id> --tier quick|thorough [--replay file]

Decides one property on /repo's current working tree: rebuilds the implementation (hooks on),
regenerates the generated Lean tables, re-checks the Lean theorems and their axioms, runs the
model/implementation correspondence and the spec oracle on the implementation, searches for a
concrete failing input when a tie breaks, and writes /verif/evidence/<id>.json.
"""
import argparse, importlib, os, sys

sys.path.insert(0, os.path.dirname(os.path.abspath(__file__)))
from vlib import core


def main():
    ap = argparse.ArgumentParser()
    ap.add_argument("pid")
    ap.add_argument("--tier", default=os.environ.get("VERIF_TIER", "quick"), choices=["quick", "thorough"])
    ap.add_argument("--replay")
    a = ap.parse_args()
    seed = int(os.environ.get("VERIF_SEED", "1"))
    os.makedirs(core.WORK, exist_ok=True)
    mod = importlib.import_module("checks." + a.pid)
    if a.replay:
        return mod.replay(a.replay)
    chk = core.Check(a.pid, a.tier, seed)
    try:
        mod.run(chk)
    except Exception as e:  # machinery failure: the property is not shown to hold
        import traceback
        traceback.print_exc()
        chk.violation(f"check machinery failed: {e!r}", [f"machinery-error {e!r}"], nofail=True)
    rc = chk.finish(level=getattr(mod, "LEVEL", "proof"))
    try:
        if core._PRIVATE_DRIVER:
            os.remove(core._PRIVATE_DRIVER)
    except OSError:
        pass
    return rc


if __name__ == "__main__":
    sys.exit(main())
