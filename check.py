#!/usr/bin/env python3
"""check.py <property id> --tier quick|thorough [--replay file]

Decides one property on /repo's current working tree: rebuilds the implementation (hooks on),
regenerates the generated Lean tables, re-checks the Lean theorems and their axioms, runs the
model/implementation correspondence and the spec oracle on the implementation, searches for a
concrete failing input when a tie breaks, and writes /verif/evidence/<id>.json.
"""
import argparse, importlib, os, sys, time

sys.path.insert(0, os.path.dirname(os.path.abspath(__file__)))
from vlib import core


def intensify(mod, chk):
    """Change-directed intensification (vlib/fingerprint.py): when source files this property is anchored in differ from
    the tree the framework was validated against, and the run at the given seed found nothing, the quick tier goes on
    with further seeds (same checks, same verdict logic) until something is found or the budget is used up."""
    from vlib import fingerprint
    if chk.tier != "quick" or os.environ.get("VERIF_NO_INTENSIFY"):
        return
    changed = fingerprint.changed_files()
    if not changed or not fingerprint.concerns(chk.pid, changed):
        return
    budget = float(os.environ.get("VERIF_INTENSIFY_BUDGET_S", "420"))
    first = time.time() - chk.t0
    extra = []
    info = {"changed_files": changed[:40], "extra_seeds": extra, "budget_s": budget}
    chk.extra["change_directed"] = info
    n = 0
    while not chk.violations and n < 6 and (time.time() - chk.t0) + first * 1.1 < budget + first:
        n += 1
        seed = chk.seed * 7919 + 104729 * n
        core.log(f"{chk.pid}: anchored files changed ({', '.join(changed[:4])}{' …' if len(changed) > 4 else ''}); extra seed {seed}")
        sub = core.Check(chk.pid, chk.tier, seed, fresh=False)
        try:
            mod.run(sub)
        except Exception as e:
            sub.violation(f"check machinery failed: {e!r}", [f"machinery-error {e!r}"], nofail=True)
        extra.append(seed)
        chk.violations += sub.violations
        for k, v in sub.known_hits.items():
            chk.known_hits.setdefault(k, v)
        chk.cov["evaluations"] += sub.cov.get("evaluations", 0)


def main():
    ap = argparse.ArgumentParser()
    ap.add_argument("pid")
    ap.add_argument("--tier", default=os.environ.get("VERIF_TIER", "quick"), choices=["quick", "thorough"])
    ap.add_argument("--replay")
    a = ap.parse_args()
    seed = int(os.environ.get("VERIF_SEED", "1"))
    os.makedirs(core.WORK, exist_ok=True)
    mod = importlib.import_module("checks." + a.pid)
    if a.replay:
        return mod.replay(a.replay)
    chk = core.Check(a.pid, a.tier, seed)
    try:
        mod.run(chk)
    except Exception as e:  # machinery failure: the property is not shown to hold
        import traceback
        traceback.print_exc()
        chk.violation(f"check machinery failed: {e!r}", [f"machinery-error {e!r}"], nofail=True)
    try:
        intensify(mod, chk)
    except Exception as e:
        import traceback
        traceback.print_exc()
    rc = chk.finish(level=getattr(mod, "LEVEL", "proof"))
    try:
        if core._PRIVATE_DRIVER:
            os.remove(core._PRIVATE_DRIVER)
    except OSError:
        pass
    return rc


if __name__ == "__main__":
    sys.exit(main())
