#!/usr/bin/env python3
"""Regenerates MANIFEST.json from the per-property tables below (kept in one place so it stays valid)."""
import json, os
HERE = os.path.dirname(os.path.abspath(__file__))

CHECKS = {
 "C06": dict(
   text="Lean 4 theorems over a code-shaped executable model of DataTracker::process_payload (uint32 wrap explicit), "
        "tied to the code by differential correspondence on random/exhaustive arrival histories under ASan/UBSan and by "
        "a spec oracle (the Lean spec itself, executable) evaluated on the implementation's own output.",
   note="Trusted: Lean kernel + standard axioms; hand-written model tied by correspondence (harness/c06_tracker.cpp); "
        "std::map successor modelled order-theoretically; generator coverage bounds what the tie sees.",
   technique="Lean 4 proof (invariant/refinement over arrival histories) + model/impl correspondence",
   design="§6 C06"),
}

PENDING = {}

def main():
    props = [json.loads(l) for l in open(os.path.join(HERE, "properties.jsonl"))]
    checks, na = [], []
    for p in props:
        pid = p["id"]
        if pid in CHECKS:
            c = CHECKS[pid]
            checks.append({
                "property_id": pid,
                "quick_cmd": f"python3 check.py {pid} --tier quick",
                "thorough_cmd": f"python3 check.py {pid} --tier thorough",
                "evidence_file": f"evidence/{pid}.json",
                "replay_cmd_template": f"python3 check.py {pid} --replay {{path}}",
                "engine": "lean4+correspondence",
                "level_claimed": {"category": c.get("category", "proof"), "text": c["text"], "design_ref": c["design"]},
                "level_note": c["note"],
                "technique": c["technique"],
            })
        else:
            na.append({"property_id": pid, "reason": PENDING.get(pid, "check not built yet in this revision of /verif (work in progress; see DESIGN.md §6 for the planned Lean model and theorems)")})
    m = {
        "version": 1,
        "setup_cmd": "python3 setup.py",
        "hooks": {
            "guard": "TINS_VERIF_HOOKS",
            "enable": "checks compile /repo/src/**/*.cpp directly with g++ -DTINS_VERIF_HOOKS -fsanitize=address,undefined (vlib/core.py build_impl)",
            "baseline_off_cmd": "cmake --build /repo/_build && ctest --test-dir /repo/_build -j8 --timeout 900",
            "source_commits": HOOK_COMMITS,
            "add_only": True,
        },
        "engines": [{"name": "lean4+correspondence", "path": "check.py",
                     "serves_properties": [c["property_id"] for c in checks],
                     "kind_free_text": "Lean 4 theorems over executable models (lean/TinsModel), translator-generated tables (translator/), "
                                       "C++ correspondence harnesses under ASan/UBSan (harness/), spec oracle = Lean spec run on implementation output"}],
        "checks": checks,
        "not_applicable": na,
        "notes": "See DESIGN.md. Known findings: known_findings.jsonl.",
    }
    with open(os.path.join(HERE, "MANIFEST.json"), "w") as f:
        json.dump(m, f, indent=1)
        f.write("\n")

HOOK_COMMITS = []
if __name__ == "__main__":
    main()
