#!/usr/bin/env python3
"""Regenerates MANIFEST.json from the per-property tables below (kept in one place so it stays valid)."""
import json, os
HERE = os.path.dirname(os.path.abspath(__file__))

import importlib, sys
sys.path.insert(0, HERE)

def load_checks():
    """Every checks/Cxx.py that defines MANIFEST = dict(text, note, technique, design[, category]) is a claimed check."""
    out = {}
    for i in range(1, 20):
        pid = f"C{i:02d}"
        if os.path.exists(os.path.join(HERE, "checks", pid + ".py")):
            mod = importlib.import_module("checks." + pid)
            if hasattr(mod, "MANIFEST"):
                out[pid] = mod.MANIFEST
    return out

CHECKS = load_checks()

PENDING = {}

HOOK_COMMITS = ["1219584"]

def main():
    props = [json.loads(l) for l in open(os.path.join(HERE, "properties.jsonl"))]
    checks, na = [], []
    for p in props:
        pid = p["id"]
        if pid in CHECKS:
            c = CHECKS[pid]
            checks.append({
                "property_id": pid,
                "quick_cmd": f"python3 check.py {pid} --tier quick",
                "thorough_cmd": f"python3 check.py {pid} --tier thorough",
                "evidence_file": f"evidence/{pid}.json",
                "replay_cmd_template": f"python3 check.py {pid} --replay {{path}}",
                "engine": "lean4+correspondence",
                "level_claimed": {"category": c.get("category", "proof"), "text": c["text"], "design_ref": c["design"]},
                "level_note": c["note"],
                "technique": c["technique"],
            })
        else:
            na.append({"property_id": pid, "reason": PENDING.get(pid, "check not built yet in this revision of /verif (work in progress; see DESIGN.md §6 for the planned Lean model and theorems)")})
    m = {
        "version": 1,
        "setup_cmd": "python3 setup.py",
        "hooks": {
            "guard": "TINS_VERIF_HOOKS",
            "enable": "checks compile /repo/src/**/*.cpp directly with g++ -DTINS_VERIF_HOOKS -fsanitize=address,undefined (vlib/core.py build_impl)",
            "baseline_off_cmd": "cmake --build /repo/_build && cmake --build /repo/_build --target tests && ctest --test-dir /repo/_build -j8 --timeout 900",
            "source_commits": HOOK_COMMITS,
            "add_only": True,
        },
        "engines": [{"name": "lean4+correspondence", "path": "check.py",
                     "serves_properties": [c["property_id"] for c in checks],
                     "kind_free_text": "Lean 4 theorems over executable models (lean/TinsModel), translator-generated tables (translator/), "
                                       "C++ correspondence harnesses under ASan/UBSan (harness/), spec oracle = Lean spec run on implementation output"}],
        "checks": checks,
        "not_applicable": na,
        "notes": "See DESIGN.md. Known findings: known_findings.jsonl.",
    }
    with open(os.path.join(HERE, "MANIFEST.json"), "w") as f:
        json.dump(m, f, indent=1)
        f.write("\n")


if __name__ == "__main__":
    main()
