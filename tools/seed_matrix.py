#!/usr/bin/env python3
"""Run our checks against every seeded change (seeded/<id>/patch.diff) WITHOUT touching /repo:
each patch is applied in a scratch worktree of /repo under /tmp/seedrun/<id> and the check runs with VERIF_REPO set.
usage: seed_matrix.py [ids...] [--jobs N] [--tier quick]
Writes seeded/<id>/caught.json {check: {exit, violations:[...]}} and prints a table (pasted into DESIGN.md §11.5)."""
import json, os, subprocess, sys, shutil, time
from concurrent.futures import ThreadPoolExecutor
HERE = os.path.dirname(os.path.dirname(os.path.abspath(__file__)))
REPO = os.environ.get("VERIF_REPO_BASE", "/repo")
args = [a for a in sys.argv[1:] if not a.startswith("--")]
jobs = 3
tier = "quick"
for i, a in enumerate(sys.argv):
    if a == "--jobs": jobs = int(sys.argv[i + 1]); args.remove(sys.argv[i + 1])
    if a == "--tier": tier = sys.argv[i + 1]; args.remove(sys.argv[i + 1])
ids = args or sorted(d for d in os.listdir(os.path.join(HERE, "seeded")) if os.path.exists(os.path.join(HERE, "seeded", d, "patch.diff")))


def sh(cmd, **kw):
    return subprocess.run(cmd, shell=True, stdout=subprocess.PIPE, stderr=subprocess.STDOUT, text=True, **kw)


def one(sid):
    S = os.path.join(HERE, "seeded", sid)
    meta = json.load(open(os.path.join(S, "meta.json")))
    import re
    checks = meta.get("checks") or [re.search(r"C\d\d", str(meta["property"])).group(0)]
    W = f"/tmp/seedrun/{sid}"
    sh(f"git -C {REPO} worktree remove --force {W}; rm -rf {W}; git -C {REPO} worktree prune")
    r = sh(f"git -C {REPO} worktree add -q --detach {W} HEAD && cp {REPO}/include/tins/config.h {W}/include/tins/config.h && git -C {W} apply {S}/patch.diff")
    if r.returncode:
        return sid, {"error": "patch does not apply: " + r.stdout[-300:]}
    # a scratch worktree of the framework too: the translators regenerate lean/TinsModel/Gen/* from the tree under test
    V = f"/tmp/seedrun/{sid}_verif"
    sh(f"git -C {HERE} worktree remove --force {V}; rm -rf {V}; git -C {HERE} worktree prune")
    r = sh(f"git -C {HERE} worktree add -q --detach {V} HEAD && cp -r {HERE}/lean/.lake {V}/lean/.lake")
    if r.returncode:
        return sid, {"error": "verif worktree: " + r.stdout[-300:]}
    res = {}
    for c in checks:
        t = time.time()
        r = sh(f"python3 check.py {c} --tier {tier}", cwd=V, env=dict(os.environ, VERIF_REPO=W))
        v = [l[:300] for l in r.stdout.split("\n") if l.startswith("VIOLATION") or "violates" in l or "differs" in l][:6]
        res[c] = {"exit": r.returncode, "wall_s": round(time.time() - t), "lines": v}
    os.makedirs(os.path.join(S, "replays"), exist_ok=True)
    for c, r in res.items():
        for l in r["lines"]:
            if "replay=" in l:
                f = l.split("replay=")[1].split()[0]
                if os.path.exists(f):
                    shutil.copy(f, os.path.join(S, "replays", os.path.basename(f)))
                    break
    sh(f"git -C {REPO} worktree remove --force {W}; rm -rf {W}; git -C {HERE} worktree remove --force {V}; rm -rf {V}")
    json.dump({"repo": sh(f"git -C {REPO} rev-parse --short HEAD").stdout.strip(),
               "verif": sh(f"git -C {HERE} rev-parse --short HEAD").stdout.strip(), "tier": tier, "results": res},
              open(os.path.join(S, "caught.json"), "w"), indent=1)
    return sid, res


with ThreadPoolExecutor(jobs) as ex:
    out = list(ex.map(one, ids))
print("| seed | property | check | exit | first report |")
print("|---|---|---|---|---|")
for sid, res in out:
    if "error" in res:
        print(f"| {sid} | | | ERROR | {res['error']} |"); continue
    for c, r in res.items():
        first = (r["lines"][0] if r["lines"] else "").replace("|", "/")[:160]
        print(f"| {sid} | {sid[:3]} | {c} | {r['exit']} | {first} |")
