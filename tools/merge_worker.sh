#!/bin/bash
# usage: merge_worker.sh <name>  — merge branch agent/<name> of /verif (evidence / seeded logs: ours; they are rewritten by the next runs),
# and cherry-pick the worker's `fix:` commits from branch agent/<name> of /repo onto /repo main.
N=$1
cd /verif
git checkout -- evidence 2>/dev/null      # evidence is rewritten by every run; never let it block a merge
if [ -n "$(git status --porcelain --untracked-files=no)" ]; then echo "verif working tree is dirty: commit first"; git status --short | head; exit 1; fi
git merge --no-ff -m "merge $N" agent/$N > /tmp/merge_$N.log 2>&1 || {
  for f in $(git diff --name-only --diff-filter=U); do
    case $f in evidence/*|seeded/*) git checkout --ours -- $f; git add $f;; esac
  done
  if [ -n "$(git diff --name-only --diff-filter=U)" ]; then echo "UNRESOLVED:"; git diff --name-only --diff-filter=U; exit 1; fi
  git commit -qm "merge $N"
}
echo "verif merged: $(git log --oneline -1)"
cd /repo
for c in $(git log --reverse --format=%H main..agent/$N 2>/dev/null); do
  # only the library sources of the worker's commit (workers sometimes commit their build directory with `git add -A`)
  git diff $c^ $c -- src include tests cmake CMakeLists.txt > /tmp/cp_$N.patch
  if [ ! -s /tmp/cp_$N.patch ]; then echo "repo: commit $c touches no source, skipped"; continue; fi
  git apply --index /tmp/cp_$N.patch && git commit -q -m "$(git log -1 --format=%B $c)" && echo "repo picked: $(git log --oneline -1 | cut -c1-120)" || { echo "APPLY FAILED $c"; exit 1; }
done
