#!/bin/bash
# usage: merge_worker.sh <name>  — merge branch agent/<name> of /verif (evidence / seeded logs: ours; they are rewritten by the next runs),
# and cherry-pick the worker's `fix:` commits from branch agent/<name> of /repo onto /repo main.
N=$1
cd /verif
git merge --no-ff -m "merge $N" agent/$N > /tmp/merge_$N.log 2>&1 || {
  for f in $(git diff --name-only --diff-filter=U); do
    case $f in evidence/*|seeded/*) git checkout --ours -- $f; git add $f;; esac
  done
  if [ -n "$(git diff --name-only --diff-filter=U)" ]; then echo "UNRESOLVED:"; git diff --name-only --diff-filter=U; exit 1; fi
  git commit -qm "merge $N"
}
echo "verif merged: $(git log --oneline -1)"
cd /repo
for c in $(git log --reverse --format=%H main..agent/$N 2>/dev/null); do
  git cherry-pick $c > /tmp/cp_$N.log 2>&1 && echo "repo picked: $(git log --oneline -1 | cut -c1-120)" || { echo "CHERRY-PICK FAILED $c"; cat /tmp/cp_$N.log | tail -5; exit 1; }
done
