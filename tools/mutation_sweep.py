#!/usr/bin/env python3
"""Mechanical mutation sweep: a self-test of the checks' detection power that does not depend on anybody's imagination.
For N randomly chosen sites in the property-anchored sources of /repo, apply ONE small mutation (relational operator
flip, off-by-one on a literal, && <-> ||, + <-> -, dropped statement) in a scratch worktree of /repo (never /repo itself),
compile it (a mutant that does not compile is discarded), run the checks mapped to that file from a scratch worktree of
/verif with VERIF_REPO pointing at the mutant, and record killed / survived.  Survivors are listed with their diff for
review (equivalent mutant, or a gap in a check).
usage: mutation_sweep.py [--n 40] [--jobs 3] [--seed 1] [--files src/tcp.cpp,...] [--out /tmp/mutsweep]
Results: <out>/results.jsonl (one line per mutant) and a summary table on stdout."""
import json, os, random, re, subprocess, sys, shutil, time
from concurrent.futures import ThreadPoolExecutor, as_completed
HERE = os.path.dirname(os.path.dirname(os.path.abspath(__file__)))
REPO = "/repo"

# file -> checks that anchor in it (quick tier)
MAP = {
    "src/ip.cpp": ["C01", "C02", "C03", "C04", "C05", "C14"],
    "src/ipv6.cpp": ["C01", "C02", "C03", "C04", "C05", "C14"],
    "src/tcp.cpp": ["C01", "C02", "C03", "C04", "C05", "C14"],
    "src/udp.cpp": ["C01", "C03", "C05", "C14"],
    "src/icmp.cpp": ["C01", "C02", "C03", "C04", "C05", "C14"],
    "src/icmpv6.cpp": ["C01", "C02", "C03", "C04", "C05", "C14"],
    "src/icmp_extension.cpp": ["C01", "C02", "C03"],
    "src/ethernetII.cpp": ["C01", "C02", "C03", "C05", "C14"],
    "src/dot1q.cpp": ["C01", "C02", "C03", "C05", "C14"],
    "src/llc.cpp": ["C01", "C02", "C03", "C04"],
    "src/snap.cpp": ["C01", "C03", "C05"],
    "src/pppoe.cpp": ["C01", "C02", "C03", "C04"],
    "src/mpls.cpp": ["C01", "C03", "C05"],
    "src/dhcp.cpp": ["C01", "C02", "C03", "C04"],
    "src/dhcpv6.cpp": ["C01", "C02", "C03", "C04"],
    "src/bootp.cpp": ["C01", "C02", "C03", "C04", "C14"],
    "src/rtp.cpp": ["C01", "C02", "C03", "C04"],
    "src/radiotap.cpp": ["C01", "C02", "C03", "C11"],
    "src/utils/radiotap_parser.cpp": ["C01", "C11"],
    "src/utils/radiotap_writer.cpp": ["C11"],
    "src/dot11/dot11_base.cpp": ["C01", "C02", "C03", "C04"],
    "src/dot11/dot11_mgmt.cpp": ["C01", "C03", "C04"],
    "src/eapol.cpp": ["C01", "C02", "C03", "C09"],
    "src/dns.cpp": ["C10", "C01"],
    "src/tcp_ip/data_tracker.cpp": ["C06"],
    "src/tcp_ip/flow.cpp": ["C06", "C07"],
    "src/tcp_ip/stream.cpp": ["C07"],
    "src/tcp_ip/stream_follower.cpp": ["C07"],
    "src/tcp_ip/stream_identifier.cpp": ["C07"],
    "src/tcp_ip/ack_tracker.cpp": ["C19"],
    "src/tcp_stream.cpp": ["C06"],
    "src/ip_reassembler.cpp": ["C08"],
    "src/crypto.cpp": ["C09"],
    "src/handshake_capturer.cpp": ["C09"],
    "src/pdu.cpp": ["C12", "C02"],
    "src/utils/checksum_utils.cpp": ["C05"],
    "src/ip_address.cpp": ["C16"],
    "src/ipv6_address.cpp": ["C16"],
    "src/detail/address_helpers.cpp": ["C16"],
    "src/sniffer.cpp": ["C17"],
    "src/packet_writer.cpp": ["C17"],
    "src/detail/pdu_helpers.cpp": ["C01", "C03", "C05"],
    "src/stp.cpp": ["C15", "C01"],
    "src/vxlan.cpp": ["C15", "C01"],
}

MUTATORS = [
    (r"(?<= )<(?= )", ["<="]), (r"(?<= )<=(?= )", ["<"]),          # spaces required: leaves template brackets alone
    (r"(?<= )>(?= )", [">="]), (r"(?<= )>=(?= )", [">"]),
    (r"==", ["!="]), (r"!=", ["=="]),
    (r"&&", ["||"]), (r"\|\|", ["&&"]),
    (r"(?<![+\-])\+(?![+=])", ["-"]), (r"(?<![\-+>])-(?![\-=>])", ["+"]),
    (r"\b([0-9]+)\b", ["+1", "-1"]),
]


def sh(cmd, **kw):
    return subprocess.run(cmd, shell=True, stdout=subprocess.PIPE, stderr=subprocess.STDOUT, text=True, **kw)


def code_lines(path):
    """indices of lines inside function bodies that are worth mutating (no includes, comments, declarations of strings)"""
    out = []
    incomment = False
    for i, l in enumerate(open(path).read().split("\n")):
        s = l.strip()
        if incomment:
            if "*/" in s: incomment = False
            continue
        if s.startswith("/*"):
            if "*/" not in s: incomment = True
            continue
        if not s or s.startswith(("//", "#", "*", "using ", "namespace ", "}", "{", "case ", "default:", "return;", "break;")):
            continue
        if "verif_" in s or "VerifHooks" in s or "TINS_VERIF_HOOKS" in s or '"' in s or "throw " in s and "(" not in s.replace("()", ""):
            continue
        if l.startswith((" ", "\t")):
            out.append(i)
    return out


def make_mutant(rng, rel):
    path = os.path.join(REPO, rel)
    lines = open(path).read().split("\n")
    cand = code_lines(path)
    for _ in range(200):
        i = rng.choice(cand)
        code = lines[i].split("//")[0]
        opts = []
        for pat, reps in MUTATORS:
            for m in re.finditer(pat, code):
                for r in reps:
                    opts.append((m, r))
        if rng.random() < 0.12 and code.strip().endswith(";") and "=" in code and not code.strip().startswith(("const ", "uint", "int ", "size_t", "bool ", "auto ", "return")):
            new = re.sub(r"\S.*", "/* mutant: statement dropped */;", lines[i], count=1)
            return i, lines[i], new
        if not opts:
            continue
        m, r = rng.choice(opts)
        if r in ("+1", "-1"):
            v = int(m.group(1))
            if v > 70000 or (v == 0 and r == "-1"):
                continue
            rep = str(v + (1 if r == "+1" else -1))
        else:
            rep = r
        new = code[:m.start()] + rep + code[m.end():] + lines[i][len(code):]
        if new != lines[i]:
            return i, lines[i], new
    return None


def one(job):
    mid, rel, lineno, old, new, checks, out = job
    W = f"{out}/{mid}/repo"; V = f"{out}/{mid}/verif"
    sh(f"git -C {REPO} worktree remove --force {W}; git -C {HERE} worktree remove --force {V}; rm -rf {out}/{mid}; mkdir -p {out}/{mid}")
    r = sh(f"git -C {REPO} worktree add -q --detach {W} HEAD && cp {REPO}/include/tins/config.h {W}/include/tins/config.h")
    if r.returncode:
        return dict(id=mid, error=r.stdout[-200:])
    p = os.path.join(W, rel)
    lines = open(p).read().split("\n")
    assert lines[lineno] == old
    lines[lineno] = new
    open(p, "w").write("\n".join(lines))
    res = dict(id=mid, file=rel, line=lineno + 1, old=old.strip(), new=new.strip(), checks={})
    c = sh(f"g++ -std=c++11 -O0 -fsyntax-only -I{W}/include -DTINS_VERIF_HOOKS {p}")
    if c.returncode:
        res["discarded"] = "does not compile"
    else:
        sh(f"git -C {HERE} worktree add -q --detach {V} HEAD && cp -r {HERE}/lean/.lake {V}/lean/.lake")
        for chk in checks:
            t = time.time()
            r = sh(f"python3 check.py {chk} --tier quick", cwd=V, env=dict(os.environ, VERIF_REPO=W, VERIF_NO_INTENSIFY=os.environ.get("SWEEP_INTENSIFY", "") and "" or "1"))
            first = next((l[:200] for l in r.stdout.split("\n") if "violates" in l or "differs" in l or "FAULT" in l or "no longer checks" in l), "")
            res["checks"][chk] = dict(exit=r.returncode, wall_s=round(time.time() - t), first=first)
            if r.returncode == 1:
                break                      # killed: no need to run the other checks
        res["killed"] = any(v["exit"] == 1 for v in res["checks"].values())
    sh(f"git -C {REPO} worktree remove --force {W}; git -C {HERE} worktree remove --force {V}; rm -rf {out}/{mid}")
    return res


def main():
    a = sys.argv[1:]
    def opt(k, d):
        return a[a.index(k) + 1] if k in a else d
    n, jobs, seed = int(opt("--n", 40)), int(opt("--jobs", 3)), int(opt("--seed", 1))
    out = opt("--out", "/tmp/mutsweep")
    files = opt("--files", "")
    files = files.split(",") if files else sorted(MAP)
    files = [f for f in files if os.path.exists(os.path.join(REPO, f))]
    rng = random.Random(seed)
    os.makedirs(out, exist_ok=True)
    todo = []
    while len(todo) < n:
        rel = rng.choice(files)
        m = make_mutant(rng, rel)
        if m:
            todo.append((f"m{seed}_{len(todo):03d}", rel, m[0], m[1], m[2], MAP[rel], out))
    with ThreadPoolExecutor(jobs) as ex, open(os.path.join(out, f"results_{seed}.jsonl"), "a") as f:
        for fut in as_completed([ex.submit(one, t) for t in todo]):
            r = fut.result()
            f.write(json.dumps(r) + "\n"); f.flush()
            tag = "DISCARD" if r.get("discarded") else ("killed " if r.get("killed") else "SURVIVED")
            by = next((k for k, v in r.get("checks", {}).items() if v["exit"] == 1), "-")
            print(f"{tag} {r['id']} {r.get('file')}:{r.get('line')}  by={by}\n    - {r.get('old')}\n    + {r.get('new')}", flush=True)


if __name__ == "__main__":
    main()
