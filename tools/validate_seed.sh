#!/bin/bash
# usage: validate_seed.sh <Cxx>  — confirm a seeded change independently in a scratch worktree of /repo's HEAD:
#   1. the existing suite passes WITH the change, 2. the demo passes WITHOUT and fails WITH it,
#   3. run our check for that property against the changed tree (evidence/replays go to scratch dirs).
# Results: /verif/seeded/<id>/validation.log ; the scratch worktree is removed at the end.
set -u
ID=$1
S=/verif/seeded/$ID
W=/tmp/seedtest/$ID
LOG=$S/validation.log
rm -rf $W; mkdir -p /tmp/seedtest
git -C /repo worktree prune
git -C /repo worktree add -q --detach $W HEAD || exit 2
cp /repo/include/tins/config.h $W/include/tins/config.h
{
echo "== validate $ID at /repo $(git -C /repo rev-parse --short HEAD) on $(date -u +%FT%TZ)"
cd $W
echo "-- build baseline (no change) + demo"
/verif/tools/run_repo_tests.sh $W 2>&1 | tail -3
sed "s#/tmp/seed/$ID/repo#$W#g; s#/tmp/seed/$ID/out#$S#g" $S/build.sh > $S/_val_build.sh
(cd $S && bash $S/_val_build.sh) > $W/_demo0.log 2>&1; echo "demo WITHOUT change: exit=$? $(tail -1 $W/_demo0.log | cut -c1-200)"
echo "-- apply change"
git apply $S/patch.diff && git diff --stat | tail -1
/verif/tools/run_repo_tests.sh $W 2>&1 | tail -3
(cd $S && bash $S/_val_build.sh) > $W/_demo1.log 2>&1; echo "demo WITH change: exit=$? $(tail -1 $W/_demo1.log | cut -c1-200)"
if [ -n "${SKIP_CHECK:-}" ]; then echo "(check skipped)"; CHECKS=""; ID_SKIP=1; fi
echo "-- our check against the changed tree"
cd /verif
for P in $( [ -n "${SKIP_CHECK:-}" ] || echo ${CHECKS:-$ID} ); do
  VERIF_REPO=$W VERIF_EVIDENCE_DIR=/tmp/seedtest/ev VERIF_REPLAY_DIR=$S/replays python3 check.py $P --tier quick 2>&1 | grep -v "^KNOWN" | tail -6 | cut -c1-400
  echo "check $P exit=${PIPESTATUS[0]}"
done
} > $LOG 2>&1
rm -f $S/_val_build.sh $S/demo
git -C /repo worktree remove --force $W
tail -12 $LOG
