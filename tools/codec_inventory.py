#!/usr/bin/env python3
"""codec_inventory.py — inventory of the typed option codecs of libtins for property C04
("every typed option encoder and its decoder are mutual inverses through the wire").

Scans the libtins sources ($VERIF_REPO or /repo) for typed option setter / getter pairs (a setter that builds an option /
tagged parameter / tag and a same-named getter that searches and converts it), plus the codecs without a same-named pair
(EXTRA), and looks each one up in the Lean wire model, the theorem files, the harness, the generators and the oracle.
Writes tools/CODEC-INVENTORY.md.  Re-run after every change:  python3 tools/codec_inventory.py [--check]
(--check: exit 1 when a theorem named in THEOREMS does not exist or has no `#print axioms` line).
"""
import os, re, sys, glob

VERIF = os.path.dirname(os.path.dirname(os.path.abspath(__file__)))
REPO = os.environ.get("VERIF_REPO", "/repo")

# class -> (family, Lean model files, harness header, generator)
FAM = {
    "TCP": ("Transport", ["Transport/Tcp.lean"], "wire_transport.h", "wire_gen_transport.py"),
    "IP": ("Ip", ["Ip/Ip4.lean"], "wire_ip.h", "wire_gen_ip.py"),
    "IPv6": ("Ip6", ["Ip6/Ipv6.lean"], "wire_ip6.h", "wire_gen_ip6.py"),
    "ICMPv6": ("Icmp", ["Icmp/Icmp6.lean"], "wire_icmp.h", "wire_gen_icmp.py"),
    "DHCP": ("App", ["App/Dhcp.lean"], "wire_app.h", "wire_gen_app.py"),
    "DHCPv6": ("App", ["App/Dhcpv6.lean"], "wire_app.h", "wire_gen_app.py"),
    "RTP": ("App", ["App/Rtp.lean"], "wire_app.h", "wire_gen_app.py"),
    "Dot11ManagementFrame": ("Wifi", ["Wifi/Tagged.lean", "Wifi/Dot11.lean"], "wire_wifi.h", "wire_gen_wifi.py"),
    "PPPoE": ("L2", ["L2/PPPoE.lean"], "wire_l2.h", "wire_gen_l2.py"),
    "RC4EAPOL": ("Wifi", ["Wifi/Eapol.lean"], "wire_wifi.h", "wire_gen_wifi.py"),
    "RSNEAPOL": ("Wifi", ["Wifi/Eapol.lean"], "wire_wifi.h", "wire_gen_wifi.py"),
}

# codecs that are not a same-named setter/getter pair: (class, name, setter, getter)
EXTRA = [
    ("TCP", "sack_permitted", "sack_permitted()", "has_sack_permitted()"),
    ("IP", "lsrr", "lsrr(lsrr_type) [inline]", "lsrr()"),
    ("IP", "ssrr", "ssrr(ssrr_type) [inline]", "ssrr()"),
    ("IP", "record_route", "record_route(record_route_type) [inline]", "record_route()"),
    ("IP", "eol", "eol()", "- (no getter)"),
    ("IP", "noop", "noop()", "- (no getter)"),
    ("IPv6", "hop-by-hop / destination options", "add_header(ext_header)", "hop_by_hop_header::from_extension_header"),
    ("IPv6", "routing", "add_header(ext_header)", "routing_header::from_extension_header"),
    ("IPv6", "fragment", "add_header(ext_header)", "fragment_header::from_extension_header"),
    ("DHCP", "end", "end()", "- (no getter)"),
    ("DHCPv6", "rapid_commit", "rapid_commit()", "has_rapid_commit()"),
    ("DHCPv6", "reconfigure_accept", "reconfigure_accept()", "has_reconfigure_accept()"),
    ("Dot11ManagementFrame", "edca_parameter_set", "edca_parameter_set(be, bk, vi, vo)", "- (no getter)"),
    ("PPPoE", "end_of_list", "end_of_list()", "- (no getter)"),
    ("RTP", "csrc_ids", "add_csrc_id / remove_csrc_id", "csrc_ids()"),
    ("RTP", "extension_data", "add_extension_data / remove_extension_data", "extension_data()"),
    ("RC4EAPOL", "key", "key(key_type)", "key()"),
    ("RSNEAPOL", "key", "key(key_type)", "key()"),
]

# (class, name) -> (theorems proving decode(encode v) = v for ALL representable v, representability predicate, remark)
T = {}
def th(cls, names, thms, repr_, note=""):
    for n in names.split():
        T[(cls, n)] = (thms.split(), repr_, note)

# Transport
th("TCP", "mss", "tcp_mss_codec", "v < 2^16")
th("TCP", "winscale", "tcp_winscale_codec", "v < 2^8")
th("TCP", "altchecksum", "tcp_altchecksum_codec", "v < 2^8")
th("TCP", "timestamp", "tcp_timestamp_codec", "v, r < 2^32")
th("TCP", "sack", "tcp_sack_codec tcp_decodeWords_encode", "edges < 2^32, at most 63 (8-bit option length; the setter throws beyond)")
th("TCP", "sack_permitted", "tcp_encodeSackPermitted_ok", "-", "flag option without data: presence is the value (has_sack_permitted = search_option)")
# Ip
th("IP", "security", "codec_security", "16/16/16/24-bit members")
th("IP", "stream_identifier", "codec_streamId", "v < 2^16")
th("IP", "lsrr ssrr record_route", "codec_route", "pointer < 2^8, 4-byte addresses; KF-C04-Ip-5 (empty route list) fixed")
th("IP", "eol noop", "", "-", "single-byte options without a typed getter; C03/C04 reparse theorems (ip_opts_reparse_*) cover them")
# Ip6
T[("IPv6", "hop-by-hop / destination options")] = ("decodeOptions_roundtrip parseHeaderOptions_roundtrip".split(),
                                                      "options < 256 octets each, header 8-aligned", "")
th("IPv6", "routing", "decodeRouting_roundtrip", "type, segments-left < 2^8")
th("IPv6", "fragment", "decodeFragment_roundtrip", "offset < 2^13, id < 2^32")
# Icmp
th("ICMPv6", "source_link_layer_addr target_link_layer_addr", "link_layer_hw_codec_inverse hw_codec", "6 octets")
th("ICMPv6", "prefix_info", "prefix_info_codec_inverse", "ReprPrefixInfo", "reserved2 is not written by the setter (comes back 0)")
th("ICMPv6", "redirect_header nonce", "bytes_codec_inverse", "any octets (through the wire: size + 2 multiple of 8, KF-C04-Icmp-2/3)")
th("ICMPv6", "mtu", "mtu_codec_inverse mtu_codec", "a < 2^16, b < 2^32")
th("ICMPv6", "shortcut_limit", "shortcut_limit_codec_inverse", "8/8/32-bit members")
th("ICMPv6", "new_advert_interval", "new_advert_interval_codec_inverse advert_codec", "16/32-bit members")
th("ICMPv6", "new_home_agent_info", "new_home_agent_info_codec_inverse", "exactly three 16-bit values (the setter throws otherwise)")
th("ICMPv6", "source_addr_list target_addr_list", "addr_list_codec_inverse addr_list_wire", "ReprAddrList (1 … 127 addresses)")
th("ICMPv6", "rsa_signature", "rsa_signature_codec_inverse rsa_codec rsa_aligned", "ReprRsa (signature fills the option: no length on the wire)", "KF-C04-Icmp-1 fixed")
th("ICMPv6", "timestamp", "timestamp_codec_inverse", "6 reserved octets, t < 2^64")
th("ICMPv6", "ip_prefix", "ip_prefix_codec_inverse", "8/8-bit members, 16-octet address")
th("ICMPv6", "link_layer_addr", "link_layer_addr_codec_inverse link_layer_addr_codec_padded link_layer_addr_wire", "ReprLladdr (address fills the option: no length on the wire)")
th("ICMPv6", "naack", "naack_codec_inverse", "8/8-bit members")
th("ICMPv6", "map", "map_codec_inverse", "4/4/1-bit members, 32-bit lifetime")
th("ICMPv6", "route_info", "route_info_codec_inverse route_info_wire", "ReprRouteInfo (prefix field a multiple of 8 octets, RFC 4191)")
th("ICMPv6", "recursive_dns_servers", "recursive_dns_servers_codec_inverse recursive_dns_servers_wire", "ReprRecDns (1 … 127 servers)")
th("ICMPv6", "handover_key_request", "handover_key_request_codec_inverse handover_key_request_wire", "AT < 16, any key (≤ 2030 through the wire)", "fix: AT was masked to 2 bits by the decoder")
th("ICMPv6", "handover_key_reply", "handover_key_reply_codec_inverse handover_key_reply_wire", "lifetime < 2^16, AT < 16, any key (≤ 2028)", "same fix")
th("ICMPv6", "handover_assist_info mobile_node_identifier", "code_len_codec_inverse codeLen_codec codeLen_aligned", "value ≤ 255 octets (8-bit length)")
th("ICMPv6", "dns_search_list", "dns_search_list_codec_inverse dnsDomains_wire dnsLabels_wire encLabels_joinDots dns_search_list_wire",
   "ReprDnsSearch (names = non-empty label lists, labels 1 … 255 octets without '.')",
   "seeded/C04e; unrepresentable accepted: dns_search_list_unrepresentable_accepted (empty label / empty name)")
# App
th("DHCP", "type", "dhcp_type_roundtrip", "v < 2^8")
th("DHCP", "lease_time renewal_time rebind_time", "dhcp_u32_roundtrip", "v < 2^32")
th("DHCP", "server_identifier subnet_mask broadcast requested_ip", "dhcp_ip_roundtrip", "4 octets")
th("DHCP", "domain_name hostname", "dhcp_str_roundtrip", "any octets (≤ 255 through the wire, KF-WApp-6)")
th("DHCP", "routers domain_name_servers", "dhcp_iplist_roundtrip chunks4_enc", "list of 4-octet addresses, any length (≤ 63 through the wire, KF-WApp-6)")
th("DHCP", "end", "", "-", "no getter")
th("DHCPv6", "ia_ta", "decIaTa_enc", "id < 2^32, any options")
th("DHCPv6", "preference reconfigure_msg", "decU8_enc", "v < 2^8")
th("DHCPv6", "elapsed_time", "decU16_enc", "v < 2^16")
th("DHCPv6", "relay_message interface_id", "decBytes_enc", "any octets")
th("DHCPv6", "server_unicast", "decIp6_enc", "16 octets")
th("DHCPv6", "status_code", "decStatus_enc", "code < 2^16, any message")
th("DHCPv6", "user_class", "decUserClass_enc classData_encClassData", "non-empty list, entries < 64 KiB (RFC 8415 §21.15)", "KF-WApp-2 fixed")
th("DHCPv6", "vendor_class", "decVendorClass_enc classData_encClassData", "entries < 64 KiB")
th("DHCPv6", "vendor_info", "decVendorInfo_enc", "enterprise < 2^32, any data")
th("DHCPv6", "client_id server_id", "decDuid_enc", "DUID with at least one identifier octet (RFC 8415 §11.1)")
th("DHCPv6", "ia_na", "decIaNa_enc", "32-bit members, any nested options")
th("DHCPv6", "ia_address", "decIaAddr_enc", "16-octet address, 32-bit lifetimes, any nested options")
th("DHCPv6", "option_request", "decU16List_enc chunks2_enc", "any list of 16-bit codes")
th("DHCPv6", "authentication", "", "8/8/8-bit members, 64-bit replay detection, any auth info",
   "GAP: modelled and compared on every run, no inverse theorem yet")
th("DHCPv6", "rapid_commit reconfigure_accept", "", "-", "flag options: presence is the value")
th("RTP", "csrc_ids extension_data", "rtp_reparse", "Canon (≤ 15 CSRC ids, extension length < 2^16)", "through the wire: whole-header reparse theorem")
# Wifi
th("Dot11ManagementFrame", "ssid challenge_text request_information", "container_roundtrip", "≤ 255 octets (8-bit length)", "verbatim octets")
th("Dot11ManagementFrame", "supported_rates extended_supported_rates", "codec_rates", "rates < 64 Mb/s in 0.5 steps (7 bits); codec_rates_high_fails")
th("Dot11ManagementFrame", "qos_capability ds_parameter_set power_constraint erp_information", "codec_u8", "v < 2^8")
th("Dot11ManagementFrame", "ibss_parameter_set", "codec_u16", "v < 2^16")
th("Dot11ManagementFrame", "power_capability fh_parameters tpc_report", "codec_pair", "8/8-bit members")
th("Dot11ManagementFrame", "supported_channels", "codec_pairs", "pairs of 8-bit values")
th("Dot11ManagementFrame", "fh_parameter_set", "codec_fhSet", "16/8/8/8-bit members")
th("Dot11ManagementFrame", "cf_parameter_set", "codec_cfSet", "8/8/16/16-bit members")
th("Dot11ManagementFrame", "ibss_dfs", "codec_ibssDfs", "non-empty channel map (codec_ibssDfs_empty_fails)")
th("Dot11ManagementFrame", "country", "codec_country", "3-octet country string, non-empty triplets; KF-C04-wifi-3 (padding)")
th("Dot11ManagementFrame", "fh_pattern_table", "codec_fhPattern", "8-bit members, any table")
th("Dot11ManagementFrame", "channel_switch", "codec_channelSwitch", "8-bit members")
th("Dot11ManagementFrame", "quiet", "codec_quiet", "8/8/16/16-bit members")
th("Dot11ManagementFrame", "bss_load", "codec_bssLoad", "16/8/16-bit members")
th("Dot11ManagementFrame", "tim", "codec_tim", "non-empty bitmap (codec_tim_empty_fails)")
th("Dot11ManagementFrame", "vendor_specific", "codec_vendor", "3-octet OUI, any data")
th("Dot11ManagementFrame", "rsn_information", "codec_rsn", "RsnRepr")
th("Dot11ManagementFrame", "edca_parameter_set", "", "-", "no getter")
# L2
th("PPPoE", "service_name ac_name host_uniq ac_cookie relay_session_id service_name_error ac_system_error generic_error",
   "pppoe_typed_roundtrip pppoe_parseTags_roundtrip", "≤ 65535 octets (16-bit length)", "verbatim octets")
th("PPPoE", "vendor_specific", "pppoe_vendor_codec pppoe_vendor_short", "vendor id < 2^32, any data")
th("PPPoE", "end_of_list", "", "-", "no getter")
th("RC4EAPOL", "key", "eapol_reparse", "key < 64 KiB")
th("RSNEAPOL", "key", "eapol_reparse", "key < 64 KiB")


def read(p):
    try:
        return open(p, errors="replace").read()
    except OSError:
        return ""


def scan_sources():
    """typed option setter / getter pairs: `void Cls::name(args)` whose body builds an option and `T Cls::name() const`"""
    out = []
    files = sorted(glob.glob(os.path.join(REPO, "src", "**", "*.cpp"), recursive=True))
    for f in files:
        s = read(f)
        for m in re.finditer(r"\nvoid (\w+)::(\w+)\(([^)]*)\)\s*\{", s):
            cls, name, args = m.groups()
            end = s.find("\n}\n", m.end())
            body = s[m.end():end]
            if not re.search(r"\b(add_option|add_tagged_option|add_tag|add_tag_iterable|add_addr_list|internal_add_option)\s*[(<]", body):
                continue
            g = re.search(r"\n([\w:<>, ]+?)\s+%s::%s\(\)\s*const" % (cls, name), s)
            if not g or cls not in FAM:
                continue
            out.append((cls, name, f"{name}({' '.join(args.split())})", f"{g.group(1).strip()} {name}()"))
    # PPPoE's textual tags are set through a header template (add_tag_iterable) — the body test above sees them in pppoe.cpp
    seen = {(c, n) for c, n, _, _ in out}
    for c, n, sset, sget in EXTRA:
        if (c, n) not in seen:
            out.append((c, n, sset, sget))
    return out


def theorem_index():
    idx = {}
    for f in glob.glob(os.path.join(VERIF, "lean", "TinsModel", "Wire", "**", "*.lean"), recursive=True):
        for m in re.finditer(r"^theorem ([\w'.]+)", read(f), re.M):
            idx.setdefault(m.group(1), os.path.relpath(f, os.path.join(VERIF, "lean", "TinsModel", "Wire")))
    return idx


def audited():
    names = set()
    for f in glob.glob(os.path.join(VERIF, "lean", "Audit", "Wire*.lean")):
        names |= set(re.findall(r"^#print axioms ([\w'.]+)", read(f), re.M))
    return {n.split(".")[-1] for n in names} | names


def main():
    codecs = scan_sources()
    thms, aud = theorem_index(), audited()
    spec = read(os.path.join(VERIF, "lean", "Driver", "WireSpec.lean"))
    verbatim = set(re.findall(r'"(\w+)"', spec[spec.find("def verbatimSetters"):spec.find("def isHexish")]))
    # the value clause: one table per family in Driver/WireSpec.lean (`typedExpect<Fam> name args`)
    VAL_DEF = {"ICMPv6": "typedExpectIcmp6", "TCP": "typedExpectTcp", "IP": "typedExpectIp", "DHCP": "typedExpectDhcp",
               "DHCPv6": "typedExpectDhcp6", "Dot11ManagementFrame": "typedExpectDot11", "PPPoE": "typedExpectPPPoE"}
    valued = {}
    for c_, d_ in VAL_DEF.items():
        a_ = spec.find("def %s " % d_)
        b_ = spec.find("\ndef ", a_ + 1)
        valued[c_] = set(re.findall(r'"(\w+)", \[', spec[a_:b_])) if a_ >= 0 else set()
    rows, problems, gaps = [], [], []
    order = ["TCP", "IP", "IPv6", "ICMPv6", "DHCP", "DHCPv6", "RTP", "Dot11ManagementFrame", "PPPoE", "RC4EAPOL", "RSNEAPOL"]
    codecs.sort(key=lambda c: order.index(c[0]) if c[0] in order else 99)
    for cls, name, sset, sget in codecs:
        fam, models, hdr, gen = FAM[cls]
        model = "".join(read(os.path.join(VERIF, "lean", "TinsModel", "Wire", m)) for m in models)
        h = read(os.path.join(VERIF, "harness", hdr))
        g = read(os.path.join(VERIF, "checks", gen))
        key = name.split(" ")[0] if cls != "IPv6" else name
        enc = bool(re.search(r'\["%s"' % re.escape(key), model)) or (cls == "IPv6" and '"add_header"' in model) or \
              (cls == "RTP" and "add_csrc_id" in model)
        dec = len(re.findall(r'"%s"' % re.escape(key), model)) >= 2 or (cls == "IPv6" and "decode" in model) or \
              (cls == "RTP" and key in model)
        tl, rp, note = T.get((cls, name), ([], "?", "not classified in tools/codec_inventory.py"))
        for t in tl:
            if t not in thms:
                problems.append(f"{cls}.{name}: theorem {t} not found")
            elif t not in aud:
                problems.append(f"{cls}.{name}: theorem {t} has no #print axioms line in Audit/Wire*.lean")
        dumped = bool(re.search(r'"%s"' % re.escape(key), h[:h.find("_apply(") if "_apply(" in h else len(h)])) or \
                 bool(re.search(r'(str|num|hex|typed_item)\([^"]*"%s"' % re.escape(key), h))
        applied = bool(re.search(r'== "%s"' % re.escape(key), h))
        gen_ok = bool(re.search(r"\b%s\b" % re.escape(key), g))
        has_getter = not sget.startswith("-")
        if key in valued.get(cls, ()) and key in verbatim:
            clause = "last-value-set + typed-getter-returns-set-value (+ getter-rejects-own-setter)"
        elif key in verbatim:
            clause = "last-value-set (+ getter-rejects-own-setter)"
        elif key in valued.get(cls, ()):
            clause = "typed-getter-returns-set-value (+ getter-rejects-own-setter)"
        elif has_getter and dumped and applied:
            clause = "getter-rejects-own-setter"
        else:
            clause = "-"
        proved = "yes" if tl else ("n/a" if not has_getter or rp == "-" else "**no**")
        if proved == "**no**":
            gaps.append(f"{cls}.{name}")
        rows.append((cls, name, sset, sget, "yes" if enc else "no", "yes" if dec else ("n/a" if not has_getter else "no"), proved,
                     " ".join(f"`{t}`" for t in tl) or "-", rp, (key if dumped else "-") + ("" if applied else " (no set op)"),
                     "yes" if gen_ok else "no", clause, note))
    out = ["# Typed option codecs of libtins — inventory for C04 (generated by tools/codec_inventory.py; do not edit)", "",
           f"{len(rows)} typed codecs; inverse theorem for all representable values: "
           f"{sum(1 for r in rows if r[6] == 'yes')}, not applicable (no getter / flag option): {sum(1 for r in rows if r[6] == 'n/a')}, "
           f"modelled and compared only: {len(gaps)}" + (f" ({', '.join(gaps)})" if gaps else "") + ".", "",
           "Columns: setter / getter as declared; *enc* / *dec* = encoder / decoder modelled in `lean/TinsModel/Wire/<Fam>/`; "
           "*proved* = `decode (encode v) = ok v` for ALL representable `v` (theorem names; all have `#print axioms` lines in "
           "`lean/Audit/Wire<Fam>.lean`); *Repr* = the representability predicate; *dump* = field under which the harness prints "
           "the typed getter (compared with the model on every line; `none`/`nf` = option_not_found, `bad`/`malformed_option`, "
           "`mp`, `!<exception>` — `Driver/WireSpec.lean: typedLookup / typedFailed` read all of them, also the Dot11 `typed=` "
           "items); *gen* = the family generator emits the setter; *oracle* = clause of `spec04` that judges the implementation's "
           "own output.", ""]
    cur = None
    for r in rows:
        if r[0] != cur:
            cur = r[0]
            out += ["", f"## {cur} (family {FAM[cur][0]})", "",
                    "| option | setter | getter | enc | dec | proved | theorems | Repr | dump | gen | oracle | remark |",
                    "|---|---|---|---|---|---|---|---|---|---|---|---|"]
        out.append("| " + " | ".join(x.replace("|", "\\|") for x in r[1:]) + " |")
    if problems:
        out += ["", "## Problems", ""] + [f"* {p}" for p in problems]
    open(os.path.join(VERIF, "tools", "CODEC-INVENTORY.md"), "w").write("\n".join(out) + "\n")
    print(f"{len(rows)} codecs, proved {sum(1 for r in rows if r[6] == 'yes')}, gaps {len(gaps)}: {', '.join(gaps)}; problems {len(problems)}")
    for p in problems:
        print("  " + p)
    return 1 if (problems and "--check" in sys.argv) else 0


if __name__ == "__main__":
    sys.exit(main())
