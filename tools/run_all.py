#!/usr/bin/env python3
"""Run every registered check (quick by default) in parallel and summarise. usage: run_all.py [quick|thorough] [seed] [jobs]"""
import json, os, subprocess, sys, time
from concurrent.futures import ThreadPoolExecutor
HERE = os.path.dirname(os.path.dirname(os.path.abspath(__file__)))
tier = sys.argv[1] if len(sys.argv) > 1 else "quick"
seed = sys.argv[2] if len(sys.argv) > 2 else "1"
jobs = int(sys.argv[3]) if len(sys.argv) > 3 else 6
m = json.load(open(os.path.join(HERE, "MANIFEST.json")))

def run(c):
    cmd = c["quick_cmd"] if tier == "quick" else c.get("thorough_cmd", c["quick_cmd"])
    t = time.time()
    r = subprocess.run(cmd, shell=True, cwd=HERE, stdout=subprocess.PIPE, stderr=subprocess.STDOUT, text=True,
                       env=dict(os.environ, VERIF_SEED=seed, VERIF_TIER=tier))
    lines = [l for l in r.stdout.split("\n") if l.startswith(("VIOLATION", "KNOWN-FINDING"))]
    return c["property_id"], r.returncode, time.time() - t, lines

with ThreadPoolExecutor(jobs) as ex:
    res = list(ex.map(run, m["checks"]))
bad = 0
for pid, rc, dt, lines in res:
    print(f"{pid} exit={rc} {dt:.0f}s")
    for l in lines:
        print("   ", l[:200])
    bad += rc != 0
sys.exit(1 if bad else 0)
