#!/usr/bin/env python3
"""Regenerate lean/Audit/WireTransport.lean: one `#print axioms` per theorem of the Transport family's Th*.lean files."""
import re, os
root = os.path.join(os.path.dirname(os.path.abspath(__file__)), "..", "lean")
names = []
for f in ["ThUdp", "ThTcpParse", "ThTcpWrite", "ThTcpReparse", "ThTcpApi", "ThFamily"]:
    src = open(os.path.join(root, "TinsModel", "Wire", "Transport", f + ".lean")).read()
    ns = []
    for line in src.split("\n"):
        m = re.match(r"^namespace\s+(\S+)", line)
        if m and m.group(1) != "Tins.Wire.Transport":
            ns.append(m.group(1))
        m = re.match(r"^end\s+(\S+)", line)
        if m and ns and ns[-1] == m.group(1):
            ns.pop()
        m = re.match(r"^theorem\s+([A-Za-z0-9_.']+)", line)
        if m:
            names.append(".".join(["Tins.Wire.Transport"] + ns + [m.group(1)]))
out = "import TinsModel.Wire.Transport.Theorems\n" + "".join(f"#print axioms {n}\n" for n in names)
open(os.path.join(root, "Audit", "WireTransport.lean"), "w").write(out)
print(len(names), "theorems")
