#!/usr/bin/env python3
"""Print the fix / finding log (DESIGN.md §11.4) as markdown from known_findings.jsonl + known_findings.d/*.jsonl."""
import glob, json, os
HERE = os.path.dirname(os.path.dirname(os.path.abspath(__file__)))
rows = []
for p in [os.path.join(HERE, "known_findings.jsonl")] + sorted(glob.glob(os.path.join(HERE, "known_findings.d", "*.jsonl"))):
    for l in open(p):
        l = l.strip()
        if l and not l.startswith("#"):
            rows.append(json.loads(l))
rows.sort(key=lambda r: (r["property"], r["id"]))
print("| id | property | status | what | commit / signature |")
print("|---|---|---|---|---|")
for r in rows:
    what = r.get("what", "").replace("|", "\\|").replace("\n", " ")
    if len(what) > 260:
        what = what[:257] + "…"
    tail = r.get("commit") if r["status"] == "fixed" else json.dumps(r.get("signature", {}), sort_keys=True)
    print(f"| {r['id']} | {r['property']} | {r['status']} | {what} | `{(tail or '').replace('|', '/')}` |")
