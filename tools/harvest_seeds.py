#!/usr/bin/env python3
"""One-off: harvest byte arrays from /repo/tests/src/**/*.cpp and keep, per parsing entry point, the blobs it accepts.
Writes corpus/wire_seeds.json (committed; checks never read /repo/tests)."""
import glob, json, os, re, subprocess, sys
sys.path.insert(0, os.path.dirname(os.path.dirname(os.path.abspath(__file__))))
from vlib import core
from checks import wire_common as wc

blobs = set()
for f in glob.glob("/repo/tests/src/**/*.cpp", recursive=True):
    t = open(f, errors="replace").read()
    for m in re.finditer(r"uint8_t\s+[\w:]+\s*\[\s*\]\s*=\s*\{([^}]*)\}", t):
        vals = re.findall(r"0x[0-9a-fA-F]+|\b\d+\b|'(?:\\.|[^'])'", m.group(1))
        bs = []
        ok = True
        for v in vals:
            try:
                if v.startswith("'"):
                    bs.append(ord(eval(v)))
                else:
                    bs.append(int(v, 0) & 0xff)
            except Exception:
                ok = False
        if ok and 2 <= len(bs) <= 2000:
            blobs.add(bytes(bs).hex())
blobs = sorted(blobs)
exe, err = core.build_harness("wire_main")
ops = [f"parse {c} {b}" for c in wc.ENTRY_CLASSES for b in blobs]
res, faults = core.run_harness_lines(exe, [], ops, case_start=("parse",))
seeds = {}
for op, r in zip(ops, res):
    _, c, b = op.split(" ")
    if r.startswith("ok "):
        seeds.setdefault(c, []).append(b)
for c in seeds:
    seeds[c] = sorted(seeds[c], key=len)[:60]
json.dump(seeds, open(os.path.join(core.VERIF, "corpus", "wire_seeds.json"), "w"), indent=0, sort_keys=True)
print({c: len(v) for c, v in seeds.items()}, "faults:", [(ops[i][:80], s) for i, s, _ in faults][:10])
