#!/bin/bash
# Test of the raw-site tie of C01 (lean/TinsModel/Wire/RawCoverage.lean, translator/gen_rawsites.py, checks/C01.py).
#   tools/test_rawsites.sh <scratch libtins worktree> [patch ...]
# Applies each patch (default: the C01 seeds and tools/rawsite_mutants/*.diff) in the scratch worktree -- never in /repo --, runs
# the quick check of C01 with VERIF_REPO pointing there, first with the correspondence disabled (VERIF_C01_NO_CORR=1: the tie
# alone must name the site / the guard) and then complete, prints the verdict lines, and reverts.
#   seeds C01, C01b, C01c, C01d          expected: reported by the tie alone; complete run: VIOLATION with a sanitizer / oracle replay
#   guarded-M*.diff (a raw read behind a guard no generator meets)   expected: VIOLATION ... no-failing-input-found naming the site
#   faulting-*.diff                       expected: VIOLATION with a replay (B: a model/implementation difference -- the over-read
#                                         stays inside PDUOption's small buffer, which ASan does not see)
set -u
here=$(cd "$(dirname "$0")/.." && pwd)
wt=${1:?scratch libtins worktree}; shift
patches=("$@")
[ ${#patches[@]} -eq 0 ] && patches=("$here"/seeded/C01*/patch.diff "$here"/tools/rawsite_mutants/*.diff)
export VERIF_REPO=$wt VERIF_EVIDENCE_DIR=$(mktemp -d) VERIF_REPLAY_DIR=$(mktemp -d)
cd "$here"
for p in "${patches[@]}"; do
  (cd "$wt" && git checkout -q -- . && git apply "$p") || { echo "=== $p: does not apply"; continue; }
  echo "=== $p   (tie alone)"
  VERIF_C01_NO_CORR=1 python3 check.py C01 --tier quick 2>&1 | grep -E "raw-site coverage|C01 quick" | cut -c1-260
  echo "=== $p   (complete check)"
  python3 check.py C01 --tier quick 2>&1 | grep -E "^VIOLATION|\[verif\]   |C01 quick" | cut -c1-260
  (cd "$wt" && git checkout -q -- .)
done
