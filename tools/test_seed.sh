#!/bin/bash
# usage: test_seed.sh <Cxx> [checks...]  — confirm a seeded change independently and run our checks against it,
# WITHOUT touching /repo or /verif: scratch worktrees of both under /tmp/seedtest/<id>/ (removed at the end).
#   1. the existing suite passes WITH the change,  2. the demo passes WITHOUT and fails WITH it,
#   3. our check(s) for that property against the changed tree.
# Results: /verif/seeded/<id>/validation.log
set -u
ID=$1; shift
CHECKS=${*:-$ID}
S=/verif/seeded/$ID
T=/tmp/seedtest/$ID
W=$T/repo
V=$T/verif
LOG=$S/validation.log
rm -rf $T; mkdir -p $T
git -C /repo worktree prune; git -C /verif worktree prune
git -C /repo worktree add -q --detach $W HEAD || exit 2
git -C /verif worktree add -q --detach $V HEAD || exit 2
cp /repo/include/tins/config.h $W/include/tins/config.h
cp -r /verif/lean/.lake $V/lean/.lake
{
echo "== validate $ID at /repo $(git -C /repo rev-parse --short HEAD), /verif $(git -C /verif rev-parse --short HEAD) on $(date -u +%FT%TZ)"
cd $W
echo "-- baseline (no change): demo (the suite on the unchanged tree is the pinned baseline: 62/62)"
sed "s#/tmp/seed/$ID/repo#$W#g; s#/tmp/seed/$ID/out#$T/demo#g" $S/build.sh > $T/build.sh
mkdir -p $T/demo; cp $S/demo.cpp $T/demo/ 2>/dev/null; cp $S/*.h $T/demo/ 2>/dev/null; cp $T/build.sh $T/demo/build.sh
(cd $T/demo && bash ./build.sh $W) > $T/demo0.log 2>&1; echo "demo WITHOUT change: exit=$? | $(tail -1 $T/demo0.log | cut -c1-200)"
echo "-- apply change"
git apply $S/patch.diff && git diff --stat | tail -1
/verif/tools/run_repo_tests.sh $W 2>&1 | tail -3 | head -1
(cd $T/demo && bash ./build.sh $W) > $T/demo1.log 2>&1; echo "demo WITH change: exit=$? | $(tail -1 $T/demo1.log | cut -c1-200)"
echo "-- our checks against the changed tree"
cd $V
for P in $CHECKS; do
  VERIF_REPO=$W python3 check.py $P --tier quick > $T/check_$P.log 2>&1; rc=$?
  grep -v "^KNOWN" $T/check_$P.log | tail -6 | cut -c1-400
  echo "check $P exit=$rc"
  mkdir -p $S/replays; for f in $(grep -o "replay=[^ ]*" $T/check_$P.log | cut -d= -f2 | head -3); do cp $f $S/replays/ 2>/dev/null; done
done
} > $LOG 2>&1
git -C /repo worktree remove --force $W
git -C /verif worktree remove --force $V
rm -rf $T
tail -12 $LOG
