#!/bin/bash
# usage: run_repo_tests.sh <repo dir>   — configure (if needed), build libtins + its tests with the guard OFF, run ctest
set -e
R=${1:-/repo}
if [ ! -f "$R/_build/build.ninja" ]; then
  cmake -G Ninja -S "$R" -B "$R/_build" -DCMAKE_BUILD_TYPE=RelWithDebInfo -DCMAKE_CXX_FLAGS=-Wno-error \
    -DLIBTINS_BUILD_TESTS=ON -DLIBTINS_BUILD_EXAMPLES=OFF -DLIBTINS_ENABLE_ACK_TRACKER=ON -DLIBTINS_ENABLE_TCPIP=ON \
    -DLIBTINS_ENABLE_TCP_STREAM_CUSTOM_DATA=ON > "$R/_build.configure.log" 2>&1 || { tail -20 "$R/_build.configure.log"; exit 1; }
fi
cmake --build "$R/_build" 2>&1 | tail -2
cmake --build "$R/_build" --target tests 2>&1 | tail -2
ctest --test-dir "$R/_build" -j8 --timeout 900 2>&1 | tail -6
