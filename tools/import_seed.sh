#!/bin/bash
# usage: import_seed.sh <Cxx> <suffix> [src-root=/tmp/seed4]  — take a sub-agent's deliverables (<src-root>/<Cxx>/out) into seeded/<Cxx><suffix>/,
# remove the agent's scratch worktree, then confirm the change independently and run our check against it (tools/test_seed.sh).
set -u
P=$1; SUF=$2; ROOT=${3:-/tmp/seed4}
ID=$P$SUF
S=/verif/seeded/$ID
mkdir -p $S
cp $ROOT/$P/out/patch.diff $ROOT/$P/out/build.sh $ROOT/$P/out/meta.json $S/ || exit 2
cp $ROOT/$P/out/*.cpp $ROOT/$P/out/*.h $ROOT/$P/out/*.hpp $S/ 2>/dev/null
git -C /repo worktree remove --force $ROOT/$P/repo 2>/dev/null; rm -rf $ROOT/$P/repo; git -C /repo worktree prune
/verif/tools/test_seed.sh $ID $P
